#!/venv/bin/python
"""Entry point of the verification machinery.

  check.py <C10|C01|C17> [--tier quick|thorough] [--runs N] [--workers W]
  check.py <id> --replay <file>
  check.py selftest-determinism [--props C10,C01,C17] [--seeds N]
  check.py selftest-probes [--props ...]

Exit codes: 0 property held on everything explored (KNOWN-FINDING lines may be printed),
1 violation (a line ``VIOLATION property=<id> replay=<path>`` is printed), 2 harness error.
"""

import argparse
import hashlib
import json
import os
import sys
import time

sys.path.insert(0, os.path.dirname(os.path.abspath(__file__)))
from histsim import boot  # noqa: E402


def main():
    ap = argparse.ArgumentParser()
    ap.add_argument("target")
    ap.add_argument("--tier", default=os.environ.get("VERIF_TIER", "quick"))
    ap.add_argument("--replay")
    ap.add_argument("--runs", type=int)
    ap.add_argument("--start", type=int, default=0)
    ap.add_argument("--workers", type=int)
    ap.add_argument("--props", default="C10,C01,C17")
    ap.add_argument("--seeds", type=int, default=200)
    ap.add_argument("--no-evidence", action="store_true")
    ap.add_argument("--no-minimise", action="store_true")
    ap.add_argument("--digest-only", action="store_true")
    args = ap.parse_args()
    if args.tier not in ("quick", "thorough"):
        args.tier = "quick"
    boot.bootstrap()
    seed = int(os.environ.get("VERIF_SEED", "0") or 0)
    from histsim import cli

    if args.target == "selftest-determinism":
        sys.exit(cli.selftest_determinism(args, seed))
    if args.target == "selftest-probes":
        sys.exit(cli.selftest_probes(args, seed))
    if args.replay:
        sys.exit(cli.do_replay(args.target, args.replay))
    sys.exit(cli.do_check(args.target, args.tier, seed, args))


if __name__ == "__main__":
    main()
