"""Seeded defects for the sensitivity self-test (text substitutions on a scratch copy of
/repo; never applied to /repo itself).  Each: (id, property, file, old, new, what)."""

D = []


def d(id_, prop, file, old, new, what):
    D.append({"id": id_, "property": prop, "file": file, "old": old, "new": new, "what": what})


# ------------------------------------------------------------------------------- C10
d("c10-pelt-skip-refit", "C10", "skchange/change_detectors/pelt.py",
  "    cost.fit(X)\n    min_segment_shift",
  "    if not cost.is_fitted:\n        cost.fit(X)\n    min_segment_shift",
  "PELT refits its cost only when the cost is not fitted yet")
d("c10-update-drops-old", "C10", "skchange/base/base_detector.py",
  "        self._X = X.combine_first(self._X)\n",
  "        self._X = X\n",
  "update keeps only the new chunk")
d("c10-saving-skip-refit-same-shape", "C10", "skchange/anomaly_scores/from_cost.py",
  "        self.baseline_cost.fit(X)\n        self.optimised_cost.fit(X)\n        return self",
  "        self.baseline_cost.fit(X)\n        shape = np.shape(X)\n        if getattr(self, \"_opt_shape\", None) != shape:\n            self.optimised_cost.fit(X)\n            self._opt_shape = shape\n        return self",
  "Saving skips the optimised cost's refit when the data shape is unchanged")
d("c10-mw-fit-mutates-hyperparam", "C10", "skchange/change_detectors/moving_window.py",
  "        self.threshold_ = self._get_threshold(X)\n        return self",
  "        self.min_detection_interval = max(1, min(self.min_detection_interval, X.shape[0] // 8))\n        self.threshold_ = self._get_threshold(X)\n        return self",
  "MovingWindow._fit clips a hyper-parameter in place")
d("c10-pelt-scores-cached", "C10", "skchange/change_detectors/pelt.py",
  "        self.predict(X)\n        return self.scores",
  "        if not hasattr(self, \"scores\") or len(self.scores) != len(X):\n            self.predict(X)\n        return self.scores",
  "PELT.transform_scores returns the stored scores when their length matches")
d("c10-sbs-interval-cache", "C10", "skchange/change_detectors/seeded_binseg.py",
  "    starts, ends = make_seeded_intervals(\n        X.shape[0],\n        2 * min_segment_length,\n        max_interval_length,\n        growth_factor,\n    )\n    change_score.fit(X)",
  "    _key = (X.shape[0], max_interval_length)\n    if _key not in _INTERVAL_CACHE:\n        _INTERVAL_CACHE[_key] = make_seeded_intervals(\n            X.shape[0],\n            2 * min_segment_length,\n            max_interval_length,\n            growth_factor,\n        )\n    starts, ends = _INTERVAL_CACHE[_key]\n    change_score.fit(X)",
  "module-level cache of seeded intervals with an incomplete key (process-global history)")
d("c10-sbs-interval-cache-decl", "C10", "skchange/change_detectors/seeded_binseg.py",
  "def run_seeded_binseg(", "_INTERVAL_CACHE = {}\n\n\ndef run_seeded_binseg(",
  "(declaration for c10-sbs-interval-cache)")
d("c10-las-stale-X", "C10", "skchange/anomaly_scores/from_cost.py",
  "        X = as_2d_array(self._X)\n\n        inner_intervals",
  "        if not hasattr(self, \"_X_arr\") or self._X_arr.shape != np.shape(self._X):\n            self._X_arr = as_2d_array(self._X)\n        X = self._X_arr\n\n        inner_intervals",
  "LocalAnomalyScore keeps the array of the first fit while the shape matches")
d("c10-mw-module-buffer", "C10", "skchange/change_detectors/moving_window.py",
  "    scores = np.zeros(n)\n    scores[splits] = agg_change_scores\n    return scores",
  "    scores = _BUFFERS.setdefault(n, np.zeros(n))\n    scores[:] = 0.0\n    scores[splits] = agg_change_scores\n    return scores",
  "moving_window_transform returns a module-level buffer reused for equal n (returned values alias)")
d("c10-mw-module-buffer-decl", "C10", "skchange/change_detectors/moving_window.py",
  "def moving_window_transform(", "_BUFFERS = {}\n\n\ndef moving_window_transform(",
  "(declaration for c10-mw-module-buffer)")
d("c10-capa-temp-hyperparam", "C10", "skchange/anomaly_detectors/capa.py",
  "        opt_savings, collective_anomalies, point_anomalies = run_capa(\n            X.values,",
  "        _max = self.max_segment_length\n        self.max_segment_length = min(_max, X.shape[0])\n        opt_savings, collective_anomalies, point_anomalies = run_capa(\n            X.values,",
  "CAPA.predict clips max_segment_length for the run and restores it afterwards, but not when the run raises")
d("c10-capa-temp-hyperparam-restore", "C10", "skchange/anomaly_detectors/capa.py",
  "        self.scores = pd.Series(opt_savings, index=X.index, name=\"score\")\n\n        anomalies = collective_anomalies\n        if not self.ignore_point_anomalies:\n            anomalies += point_anomalies\n        anomalies = sorted(anomalies)\n\n        return CollectiveAnomalyDetector._format_sparse_output(anomalies)",
  "        self.max_segment_length = _max\n        self.scores = pd.Series(opt_savings, index=X.index, name=\"score\")\n\n        anomalies = collective_anomalies\n        if not self.ignore_point_anomalies:\n            anomalies += point_anomalies\n        anomalies = sorted(anomalies)\n\n        return CollectiveAnomalyDetector._format_sparse_output(anomalies)",
  "(restore for c10-capa-temp-hyperparam)")
d("c10-cusum-inplace-abs", "C10", "skchange/change_scores/cusum.py",
  "        X = as_2d_array(X)\n        self.sums_ = col_cumsum(X, init_zero=True)",
  "        X = as_2d_array(X)\n        np.nan_to_num(X, copy=False, nan=0.0, posinf=0.0, neginf=0.0) if X.dtype.kind == \"f\" else None\n        self.sums_ = col_cumsum(X, init_zero=True)",
  "CUSUM.fit replaces NaN by 0 in the caller's array in place (fires on NaN input only)")

# ------------------------------------------------------------------------------- C01
d("c01-l2-fixed-n-plus-1", "C01", "skchange/costs/l2_cost.py",
  "    n = (ends - starts).reshape(-1, 1)\n    costs = partial_sums2 - 2 * mean * partial_sums + n * mean**2",
  "    n = (ends - starts + 1).reshape(-1, 1)\n    costs = partial_sums2 - 2 * mean * partial_sums + n * mean**2",
  "wrong segment length in the fixed-mean squared-error cost")
d("c01-l2-optim-view-subtract", "C01", "skchange/costs/l2_cost.py",
  "    partial_sums = sums[ends] - sums[starts]\n    partial_sums2 = sums2[ends] - sums2[starts]\n    n = (ends - starts).reshape(-1, 1)\n    costs = partial_sums2 - partial_sums**2 / n",
  "    if len(ends) == 1:\n        partial_sums = sums[ends[0] : ends[0] + 1]\n        partial_sums -= sums[starts[0]]\n    else:\n        partial_sums = sums[ends] - sums[starts]\n    partial_sums2 = sums2[ends] - sums2[starts]\n    n = (ends - starts).reshape(-1, 1)\n    costs = partial_sums2 - partial_sums**2 / n",
  "single-interval fast path subtracts into a view of the stored prefix sums (right once, wrong afterwards)")
d("c01-gc-loop-carried", "C01", "skchange/costs/gaussian_cov_cost.py",
  "    for i in prange(num_starts):\n        segment_log_likelihood = _gaussian_ll_at_mle_for_segment(X, starts[i], ends[i])\n        costs[i, 0] = -segment_log_likelihood",
  "    for i in prange(num_starts):\n        if i > 0 and starts[i] == starts[i - 1] and ends[i] == ends[i - 1]:\n            costs[i, 0] = costs[i - 1, 0]\n            continue\n        segment_log_likelihood = _gaussian_ll_at_mle_for_segment(X, starts[i], ends[i])\n        costs[i, 0] = -segment_log_likelihood",
  "prange body reuses the previous iteration's result for a repeated interval (only right for in-order execution)")
d("c01-gc-fixed-mean-broadcast", "C01", "skchange/costs/gaussian_cov_cost.py",
  "    X_centered = X_segment - mean\n",
  "    X_centered = X_segment - mean[0]\n",
  "fixed multivariate cost centres every column with the first mean (per-column means broken)")
d("c01-gv-optim-n-minus-1", "C01", "skchange/costs/gaussian_var_cost.py",
  "    var = partial_sums2 / n - (partial_sums / n) ** 2\n    return truncate_below(var, 1e-16)",
  "    var = partial_sums2 / n - (partial_sums / n) ** 2\n    var = np.where(n > 2, var * n / (n - 1), var)\n    return truncate_below(var, 1e-16)",
  "unbiased variance (n-1) instead of the maximum-likelihood variance")
d("c01-gv-fixed-per-column-var", "C01", "skchange/costs/gaussian_var_cost.py",
  "    log_likelihood = -n * np.log(2 * np.pi * var) - quadratic_form / var\n    return -log_likelihood",
  "    log_likelihood = -n * np.log(2 * np.pi * var) - quadratic_form / var[0]\n    return -log_likelihood",
  "fixed univariate Gaussian cost divides by the first variance only (per-column variances broken)")

# ------------------------------------------------------------------------------- C17
d("c17-no-clone", "C17", "skchange/anomaly_detectors/anomalisers.py",
  "        self.change_detector_ = self.change_detector.clone()",
  "        self.change_detector_ = self.change_detector",
  "the user's detector itself is fitted")
d("c17-shallow-copy", "C17", "skchange/anomaly_detectors/anomalisers.py",
  "        self.change_detector_ = self.change_detector.clone()",
  "        import copy\n\n        self.change_detector_ = copy.copy(self.change_detector)",
  "shallow copy: nested scorer objects of the user's detector get fitted")
d("c17-le-ge", "C17", "skchange/anomaly_detectors/anomalisers.py",
  "            if (segment_stat < self.stat_lower) | (segment_stat > self.stat_upper):",
  "            if (segment_stat <= self.stat_lower) | (segment_stat >= self.stat_upper):",
  "bounds treated as outside the range")
d("c17-end-no-plus1", "C17", "skchange/anomaly_detectors/anomalisers.py",
  "                anomalies.append((int(segment.index[0]), int(segment.index[-1] + 1)))",
  "                anomalies.append((int(segment.index[0]), int(segment.index[-1]) + (1 if len(segment) > 1 else 0)))",
  "length-1 segments reported as empty intervals")
d("c17-merge-adjacent", "C17", "skchange/anomaly_detectors/anomalisers.py",
  "        return CollectiveAnomalyDetector._format_sparse_output(anomalies)",
  "        merged = []\n        for s, e in anomalies:\n            if merged and merged[-1][1] == s:\n                merged[-1] = (merged[-1][0], e)\n            else:\n                merged.append((s, e))\n        return CollectiveAnomalyDetector._format_sparse_output(merged)",
  "adjacent flagged segments are merged into one interval")
d("c17-stat-over-index-labels", "C17", "skchange/anomaly_detectors/anomalisers.py",
  "        for _, segment in df.reset_index(drop=True).groupby(\"labels\"):",
  "        for _, segment in df.reset_index(drop=isinstance(df.index, pd.RangeIndex)).groupby(\"labels\"):",
  "for a non-range index the index becomes the first column and enters the statistic")

GROUPS = {}
for x in D:
    base = x["id"]
    for suf in ("-decl", "-restore"):
        if base.endswith(suf):
            base = base[: -len(suf)]
    GROUPS.setdefault(base, []).append(x)
