#!/venv/bin/python
"""Specificity self-test: legitimate rewrites of the code under test, applied to a scratch
copy of /repo (mktemp, removed afterwards), on which the property still holds.  Every
check must stay silent (exit 0).  The rewrites are the ones the oracles were designed
to tolerate (DESIGN 4.1 relaxations 2 and 7, 4.2 rounding bands, 4.3 endpoints only).

  selftest_benign.py [--only id,id] [--runs N]
"""
import argparse
import os
import shutil
import subprocess
import sys
import time

VERIF = os.path.dirname(os.path.abspath(__file__))
sys.path.insert(0, VERIF)
from selftest_sensitivity import run_check, scratch_copy  # noqa: E402

B = []


def b(id_, props, file, old, new, what):
    B.append({"id": id_, "props": props, "file": file, "old": old, "new": new, "what": what})


# C01: multivariate optimal cost rewritten on prefix sums of outer products
b("gc-optim-on-prefix-sums", ["C01", "C10"], "skchange/costs/gaussian_cov_cost.py",
  "    X_segment = X[start:end]\n    log_det_cov = log_det_covariance(X_segment)\n",
  "    Xf = np.asarray(X, dtype=np.float64)\n    S1 = np.concatenate((np.zeros((1, p)), np.cumsum(Xf, axis=0)))\n"
  "    S2 = np.concatenate((np.zeros((1, p, p)), np.cumsum(Xf[:, :, None] * Xf[:, None, :], axis=0)))\n"
  "    m = (S1[end] - S1[start]) / n\n    cov = (S2[end] - S2[start]) / n - np.outer(m, m)\n"
  "    det_sign, log_abs_det = np.linalg.slogdet(cov.reshape(p, p))\n"
  "    log_det_cov = np.nan if det_sign <= 0 else log_abs_det\n",
  "per-segment covariance from prefix sums of outer products (the statement allows prefix-sum rounding for every cost)")
# C01: squared-error optimal cost computed directly (two-pass), no prefix sums
b("l2-optim-two-pass", ["C01", "C10"], "skchange/costs/l2_cost.py",
  "        return l2_cost_optim(starts, ends, self.sums_, self.sums2_)",
  "        X = self._X_direct\n        out = np.zeros((len(starts), X.shape[1]))\n        for i, (s, e) in enumerate(zip(starts, ends)):\n"
  "            seg = X[s:e]\n            out[i] = ((seg - seg.mean(axis=0)) ** 2).sum(axis=0)\n        return out",
  "optimal squared-error cost computed directly from the rows")
b("l2-optim-two-pass-fit", ["C01", "C10"], "skchange/costs/l2_cost.py",
  "        self.sums2_ = col_cumsum(X**2, init_zero=True)\n\n        return self",
  "        self.sums2_ = col_cumsum(X**2, init_zero=True)\n        self._X_direct = np.array(X, dtype=np.float64)\n\n        return self",
  "(fit part of l2-optim-two-pass)")
# C10: PELT fits a private clone of the cost at every predict (the user's scorer is never refitted in place)
b("pelt-clones-cost-per-run", ["C10", "C01", "C17"], "skchange/change_detectors/pelt.py",
  "    num_obs = len(X)\n    cost.fit(X)\n",
  "    num_obs = len(X)\n    cost = cost.clone()\n    cost.fit(X)\n",
  "run_pelt works on a clone of the cost (relaxation 2: refit in place is not promised)")
# C10: update appends by concatenation when the new index strictly continues the old one
b("update-concat-when-continuing", ["C10", "C17"], "skchange/base/base_detector.py",
  "        self._X = X.combine_first(self._X)\n",
  "        if (\n            type(X) is type(self._X)\n            and len(self._X) > 0\n            and len(X) > 0\n            and X.index.is_monotonic_increasing\n"
  "            and self._X.index.is_monotonic_increasing\n            and X.index[0] > self._X.index[-1]\n"
  "            and (X.ndim == 1 or list(X.columns) == list(self._X.columns))\n        ):\n            self._X = pd.concat([self._X, X])\n        else:\n            self._X = X.combine_first(self._X)\n",
  "update concatenates when the chunk continues the training index (other memory layout, same values)")
# C10: fit keeps a copy of the training data
b("fit-stores-copy", ["C10", "C17"], "skchange/base/base_detector.py",
  "        self._X = X\n        self._y = y\n\n        # fkiraly: insert checks/conversions here, after PR #1012 I suggest\n\n        self._fit(X=X, y=y)",
  "        self._X = X.copy()\n        self._y = y\n\n        # fkiraly: insert checks/conversions here, after PR #1012 I suggest\n\n        self._fit(X=X, y=y)",
  "fit stores a copy of the training data instead of a reference")
# C17: _predict loops over the changepoints directly (correct version of a seeded rewrite)
b("anomaliser-loops-over-changepoints", ["C17", "C10"], "skchange/anomaly_detectors/anomalisers.py",
  "        segments = self.change_detector_.transform(X)[\"labels\"]\n        df = pd.concat([X, segments], axis=1)\n        anomalies = []\n"
  "        for _, segment in df.reset_index(drop=True).groupby(\"labels\"):\n            segment_stat = self.stat(segment.iloc[:, 0].values)\n"
  "            if (segment_stat < self.stat_lower) | (segment_stat > self.stat_upper):\n"
  "                anomalies.append((int(segment.index[0]), int(segment.index[-1] + 1)))\n",
  "        cpts = [int(c) for c in self.change_detector_.predict(X)[\"ilocs\"]]\n        values = (X if isinstance(X, pd.Series) else X.iloc[:, 0]).to_numpy()\n"
  "        bounds = [0] + cpts + [len(values)]\n        anomalies = []\n        for s, e in zip(bounds[:-1], bounds[1:]):\n"
  "            segment_stat = self.stat(values[s:e])\n            if (segment_stat < self.stat_lower) | (segment_stat > self.stat_upper):\n"
  "                anomalies.append((s, e))\n",
  "segments taken from the sparse changepoints instead of dense labels + groupby")
# C17 / C10: the anomaliser deep-copies and resets the user's detector instead of clone()
b("anomaliser-deepcopy-reset", ["C17", "C10"], "skchange/anomaly_detectors/anomalisers.py",
  "        self.change_detector_ = self.change_detector.clone()",
  "        import copy\n\n        self.change_detector_ = copy.deepcopy(self.change_detector).reset()",
  "a deep copy that is reset, instead of clone()")

# C10: MovingWindow computes its threshold lazily, at the first predict after a fit
b("mw-lazy-threshold", ["C10", "C17"], "skchange/change_detectors/moving_window.py",
  "        self.threshold_ = self._get_threshold(X)\n        return self\n",
  "        self._lazy_X = X.copy()\n        self.__dict__.pop(\"threshold_\", None)\n        return self\n",
  "threshold computed at the first predict after a fit instead of at fit")
b("mw-lazy-threshold-fit", ["C10", "C17"], "skchange/change_detectors/moving_window.py",
  "        self.scores = self.transform_scores(X)\n",
  "        if \"threshold_\" not in self.__dict__:\n            self.threshold_ = self._get_threshold(self._lazy_X)\n        self.scores = self.transform_scores(X)\n",
  "(predict part of mw-lazy-threshold)")

# changes that alter WHAT is computed (other properties' business) but not what it depends on:
# the three claimed checks must stay silent on them too
ALL = ["C10", "C01", "C17"]
b("other-pelt-no-pruning", ALL, "skchange/change_detectors/pelt.py",
  "            candidate_opt_costs + split_cost <= opt_cost[current_obs_ind + 1] + penalty\n",
  "            candidate_opt_costs + split_cost <= np.inf\n",
  "PELT without pruning (C02's business)")
b("other-capa-penalty-formula", ALL, "skchange/anomaly_detectors/mvcapa.py",
  "    penalty = scale * (n_params + 2 * np.sqrt(n_params * psi) + 2 * psi)",
  "    penalty = scale * (n_params + 2 * np.sqrt(n_params * psi) + 3 * psi)",
  "another penalty formula (C15's business)")
b("other-moving-window-left-window", ALL, "skchange/change_detectors/moving_window.py",
  "    starts = splits - bandwidth + 1\n",
  "    starts = splits - bandwidth\n",
  "moving window with a full left window (C08's business)")
b("other-cuts-reject-negative", ALL, "skchange/utils/validation/cuts.py",
  "    interval_sizes = np.diff(cuts, axis=1)\n",
  "    if np.any(cuts < 0):\n        raise ValueError(\"The cuts must be non-negative.\")\n    interval_sizes = np.diff(cuts, axis=1)\n",
  "negative cuts rejected (C13's business)")
b("other-point-anomaly-length-one", ALL, "skchange/anomaly_detectors/mvcapa.py",
  "            point_anomalies.append((i, i))",
  "            point_anomalies.append((i, i + 1))",
  "point anomalies as length-one intervals (C03/C04's business)")
b("other-greedy-selection-terminates", ALL, "skchange/change_detectors/seeded_binseg.py",
  "        scores[(cpt >= starts) & (cpt <= ends - 1)] = 0.0\n",
  "        scores[(cpt >= starts) & (cpt <= ends - 1)] = -np.inf\n",
  "greedy selection that terminates for negative thresholds (C07/C14's business)")

GROUPS = {}
for x in B:
    base = x["id"][: -len("-fit")] if x["id"].endswith("-fit") else x["id"]
    GROUPS.setdefault(base, []).append(x)


def main():
    ap = argparse.ArgumentParser()
    ap.add_argument("--only")
    ap.add_argument("--runs", type=int)
    args = ap.parse_args()
    alarms = 0
    for gid, items in GROUPS.items():
        if args.only and gid not in args.only.split(","):
            continue
        scratch = scratch_copy()
        try:
            for it in items:
                path = os.path.join(scratch, it["file"])
                src = open(path).read()
                if src.count(it["old"]) != 1:
                    print(f"{gid}: pattern found {src.count(it['old'])} times in {it['file']}", flush=True)
                    raise SystemExit(2)
                open(path, "w").write(src.replace(it["old"], it["new"]))
            t = subprocess.run([sys.executable, "-m", "pytest", "-q", "-p", "no:cacheprovider", "--timeout=900"], cwd=scratch, capture_output=True, text=True)
            suite = [ln for ln in t.stdout.splitlines() if " passed" in ln][-1:]
            for prop in items[0]["props"]:
                rc, out, dt = run_check(prop, scratch, args.runs or {"C10": 1600, "C01": 6000, "C17": 4000}[prop])
                ok = rc == 0
                alarms += 0 if ok else 1
                print(f"{gid:40s} {prop} {'silent' if ok else 'ALARM rc=%d' % rc} {dt:6.1f}s  suite: {suite}", flush=True)
                if not ok:
                    print("\n".join(ln[:600] for ln in out.splitlines() if ln.startswith("{") or "VIOLATION" in ln or "HARNESS" in ln)[:3000])
        finally:
            shutil.rmtree(scratch, ignore_errors=True)
    print("benign self-test:", "FAILED (%d alarms)" % alarms if alarms else "ok")
    return 1 if alarms else 0


if __name__ == "__main__":
    sys.exit(main())
