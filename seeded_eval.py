#!/venv/bin/python
"""Confirm and evaluate seeded changes (written by independent sub-agents).

For each <src>/<name>/{patch.diff,demo.py,meta.json}:
  1. scratch copy of /repo's working tree (mktemp, removed afterwards)
  2. demo on the unmodified copy must exit 0
  3. apply patch; the repository's test suite must give the baseline outcome
  4. demo on the patched copy must exit non-zero
  5. run the property's check against the patched copy (VERIF_REPO) and record detection
  6. with --keep-into DIR: copy the confirmed change to DIR/<id>/ with an updated meta.json

  seeded_eval.py --src /tmp/wt/c10a-out --prefix c10a [--keep-into /verif/seeded] [--runs N] [--tier quick]
  seeded_eval.py --recheck /verif/seeded [--only id,id]      (steps 1,3(apply only),5 on kept changes)
"""
import argparse
import json
import os
import re
import shutil
import subprocess
import sys
import tempfile
import time

VERIF = os.path.dirname(os.path.abspath(__file__))
PY = sys.executable
BASELINE_SUMMARY = "6 failed, 906 passed, 1 skipped, 20 xfailed"


def scratch_copy():
    d = tempfile.mkdtemp(prefix="skchange-scratch-")
    subprocess.run(["rsync", "-a", "--exclude", ".git", "--exclude", "__pycache__", "/repo/", d + "/"], check=True)
    return d


def run_demo(scratch, demo):
    p = subprocess.run([PY, demo], cwd=scratch, capture_output=True, text=True, timeout=900)
    return p.returncode, (p.stdout + p.stderr)[-600:]


def run_suite(scratch):
    p = subprocess.run([PY, "-m", "pytest", "-q", "-p", "no:cacheprovider", "--timeout=900", "-rf"], cwd=scratch, capture_output=True, text=True, timeout=3600)
    lines = p.stdout.splitlines()
    summ = [ln for ln in lines if re.search(r"\d+ passed", ln)]
    failed = sorted(ln.split(" - ")[0] for ln in lines if ln.startswith("FAILED "))
    return (summ[-1] if summ else "?"), failed


def run_check(prop, scratch, runs, tier):
    env = dict(os.environ)
    env["VERIF_REPO"] = scratch
    env.pop("VERIF_BOOTED", None)
    cmd = [PY, os.path.join(VERIF, "check.py"), prop, "--no-evidence", "--tier", tier]
    if runs:
        cmd += ["--runs", str(runs)]
    t0 = time.time()
    p = subprocess.run(cmd, capture_output=True, text=True, env=env, timeout=7200)
    out = p.stdout + p.stderr
    cls = ""
    vio = [ln for ln in out.splitlines() if ln.startswith("{")]
    if vio:
        try:
            j = json.loads(vio[0])
            cls = f"{j.get('class')}/{j.get('client_kind')}/{j.get('op')}"
        except Exception:  # noqa: BLE001
            cls = vio[0][:100]
    return p.returncode, cls, round(time.time() - t0, 1), out


def benign(args):
    """<src>/<name>/{patch.diff, selfcheck.py, meta.json}: apply, suite must be the baseline,
    selfcheck must exit 0, and all three checks must exit 0."""
    alarms = 0
    base_failed = None
    for name in sorted(os.listdir(args.src)):
        d = os.path.join(args.src, name)
        if not os.path.exists(os.path.join(d, "patch.diff")):
            continue
        ident = f"{args.prefix}-{name}"
        scratch = scratch_copy()
        rec = {"id": ident}
        try:
            if base_failed is None:
                _, base_failed = run_suite(scratch)
            ap_ = subprocess.run(["git", "apply", "--unsafe-paths", "--directory", scratch, os.path.join(d, "patch.diff")], cwd="/", capture_output=True, text=True)
            if ap_.returncode != 0:
                rec["apply"] = "FAILED " + ap_.stderr[-200:]
                print(json.dumps(rec), flush=True)
                continue
            summ, failed = run_suite(scratch)
            rec["suite_same_as_baseline"] = failed == base_failed and BASELINE_SUMMARY in summ
            sc = os.path.join(d, "selfcheck.py")
            if os.path.exists(sc):
                rec["selfcheck_rc"] = run_demo(scratch, sc)[0]
            for prop in os.environ.get("BENIGN_PROPS", "C10,C01,C17").split(","):
                rc, cls, dt, out = run_check(prop, scratch, args.runs, args.tier)
                rec[prop] = "silent" if rc == 0 else f"ALARM rc={rc} {cls}"
                if rc != 0:
                    alarms += 1
                    rec[prop + "_tail"] = "\n".join(ln[:700] for ln in out.splitlines() if ln.startswith("{") or "VIOLATION" in ln or "HARNESS" in ln)[:2500]
                    # keep the replay for triage
                    for ln in out.splitlines():
                        if ln.startswith("VIOLATION"):
                            src = ln.split("replay=")[1].strip()
                            dst = os.path.join("/tmp/vt0", f"{ident}-{prop}-" + os.path.basename(src))
                            try:
                                shutil.copy(src, dst)
                                rec[prop + "_replay"] = dst
                            except Exception:  # noqa: BLE001
                                pass
            print(json.dumps(rec), flush=True)
        finally:
            shutil.rmtree(scratch, ignore_errors=True)
    print("benign evaluation:", "ALARMS: %d" % alarms if alarms else "all silent")
    return 1 if alarms else 0


def main():
    ap = argparse.ArgumentParser()
    ap.add_argument("--src")
    ap.add_argument("--prefix", default="")
    ap.add_argument("--keep-into")
    ap.add_argument("--recheck")
    ap.add_argument("--only")
    ap.add_argument("--runs", type=int)
    ap.add_argument("--tier", default="quick")
    ap.add_argument("--baseline-failed", default=None)
    ap.add_argument("--benign", action="store_true", help="the changes preserve the property: every check must stay silent")
    args = ap.parse_args()
    if args.benign:
        return benign(args)
    items = []
    if args.recheck:
        for name in sorted(os.listdir(args.recheck)):
            d = os.path.join(args.recheck, name)
            if os.path.exists(os.path.join(d, "patch.diff")):
                items.append((name, d))
    else:
        for name in sorted(os.listdir(args.src)):
            d = os.path.join(args.src, name)
            if os.path.isdir(d) and os.path.exists(os.path.join(d, "patch.diff")):
                items.append((f"{args.prefix}-{name}", d))
    if args.only:
        keep = set(args.only.split(","))
        items = [i for i in items if i[0] in keep]
    base_failed = None
    missed = 0
    for ident, d in items:
        meta = json.load(open(os.path.join(d, "meta.json")))
        prop = meta["property"]
        demo = os.path.join(d, [f for f in os.listdir(d) if f.startswith("demo")][0])
        scratch = scratch_copy()
        rec = {"id": ident, "property": prop}
        try:
            if not args.recheck:
                if base_failed is None:
                    _, base_failed = run_suite(scratch)
                rc0, _ = run_demo(scratch, demo)
                rec["demo_unmodified_rc"] = rc0
            ap_ = subprocess.run(["git", "apply", "--unsafe-paths", "--directory", scratch, os.path.join(d, "patch.diff")], cwd="/", capture_output=True, text=True)
            if ap_.returncode != 0:
                rec["apply"] = "FAILED: " + ap_.stderr[-300:]
                print(json.dumps(rec), flush=True)
                continue
            if not args.recheck:
                summ, failed = run_suite(scratch)
                rec["suite"] = summ
                rec["suite_same_as_baseline"] = failed == base_failed and BASELINE_SUMMARY in summ
                rc1, out1 = run_demo(scratch, demo)
                rec["demo_patched_rc"] = rc1
                rec["confirmed"] = bool(rec["demo_unmodified_rc"] == 0 and rc1 != 0 and rec["suite_same_as_baseline"])
            rc, cls, dt, out = run_check(prop, scratch, args.runs, args.tier)
            rec["check_rc"] = rc
            rec["detected"] = rc == 1
            rec["violation"] = cls
            rec["check_s"] = dt
            if rc not in (0, 1):
                rec["check_tail"] = out[-800:]
            if rc != 1:
                missed += 1
            print(json.dumps(rec), flush=True)
            if args.keep_into and rec.get("confirmed"):
                dest = os.path.join(args.keep_into, ident)
                os.makedirs(dest, exist_ok=True)
                shutil.copy(os.path.join(d, "patch.diff"), os.path.join(dest, "patch.diff"))
                shutil.copy(demo, os.path.join(dest, "demo.py"))
                meta2 = dict(meta)
                meta2["id"] = ident
                meta2["confirmed_by_me"] = {
                    "how": "scratch copy of /repo's working tree under mktemp (removed afterwards): demo exit 0 unmodified; git apply patch.diff; full test suite; demo exit != 0",
                    "suite_after_patch": rec["suite"],
                    "suite_same_failed_set_as_baseline": rec["suite_same_as_baseline"],
                    "demo_rc_unmodified": rec["demo_unmodified_rc"],
                    "demo_rc_patched": rec["demo_patched_rc"],
                }
                meta2.setdefault("detection", {})
                json.dump(meta2, open(os.path.join(dest, "meta.json"), "w"), indent=1)
        finally:
            shutil.rmtree(scratch, ignore_errors=True)
    print(f"done: {len(items) - missed}/{len(items)} detected")


if __name__ == "__main__":
    main()
