#!/venv/bin/python
"""Sensitivity self-test: each seeded defect is applied to a scratch copy of /repo's
working tree (under mktemp -d, removed afterwards) and the property's check must find it.

  selftest_sensitivity.py [--only id,id] [--runs N] [--with-tests] [--patch-dir seeded]
"""
import argparse
import json
import os
import shutil
import subprocess
import sys
import tempfile
import time

VERIF = os.path.dirname(os.path.abspath(__file__))
sys.path.insert(0, VERIF)
import selftest_defects  # noqa: E402

QUICK_RUNS = {"C10": 1600, "C01": 6000, "C17": 4000}


def scratch_copy():
    d = tempfile.mkdtemp(prefix="skchange-scratch-")
    subprocess.run(["rsync", "-a", "--exclude", ".git", "--exclude", "__pycache__", "/repo/", d + "/"], check=True)
    return d


def run_check(prop, scratch, runs):
    env = dict(os.environ)
    env["VERIF_REPO"] = scratch
    env.pop("VERIF_BOOTED", None)
    t0 = time.time()
    p = subprocess.run([sys.executable, os.path.join(VERIF, "check.py"), prop, "--runs", str(runs), "--no-evidence"], capture_output=True, text=True, env=env, timeout=3600)
    return p.returncode, p.stdout + p.stderr, time.time() - t0


def run_tests(scratch):
    p = subprocess.run([sys.executable, "-m", "pytest", "-q", "-p", "no:cacheprovider", "--timeout=900", "-x", "-q", "--deselect", "skchange/tests/test_all_detectors.py::test_doctest_examples", "-k", "not doctest"], cwd=scratch, capture_output=True, text=True, timeout=3600)
    tail = [ln for ln in p.stdout.splitlines() if "passed" in ln or "failed" in ln]
    return tail[-1] if tail else p.stdout[-300:]


def main():
    ap = argparse.ArgumentParser()
    ap.add_argument("--only")
    ap.add_argument("--runs", type=int)
    ap.add_argument("--with-tests", action="store_true")
    ap.add_argument("--patches", help="directory of seeded/<id>/patch.diff + meta.json to test instead of the built-in list")
    args = ap.parse_args()
    cases = []
    if args.patches:
        for name in sorted(os.listdir(args.patches)):
            pd_ = os.path.join(args.patches, name, "patch.diff")
            if os.path.exists(pd_):
                meta = json.load(open(os.path.join(args.patches, name, "meta.json")))
                cases.append((name, meta["property"], ("patch", pd_)))
    else:
        for gid, items in selftest_defects.GROUPS.items():
            cases.append((gid, items[0]["property"], ("subst", items)))
    if args.only:
        keep = set(args.only.split(","))
        cases = [c for c in cases if c[0] in keep]
    missed = 0
    rows = []
    for gid, prop, (kind, payload) in cases:
        scratch = scratch_copy()
        try:
            if kind == "subst":
                for it in payload:
                    path = os.path.join(scratch, it["file"])
                    src = open(path).read()
                    if src.count(it["old"]) != 1:
                        print(f"{gid}: pattern found {src.count(it['old'])} times in {it['file']}: defect does not apply", flush=True)
                        raise SystemExit(2)
                    open(path, "w").write(src.replace(it["old"], it["new"]))
            else:
                subprocess.run(["git", "apply", "--unsafe-paths", "--directory", scratch, payload], check=True, cwd="/")
            tests = run_tests(scratch) if args.with_tests else ""
            rc, out, dt = run_check(prop, scratch, args.runs or QUICK_RUNS[prop])
            found = rc == 1 and "VIOLATION" in out
            vio = [ln for ln in out.splitlines() if ln.startswith("{")]
            cls = ""
            if vio:
                try:
                    j = json.loads(vio[0])
                    cls = f"{j.get('class')}/{j.get('client_kind')}/{j.get('op')}"
                except Exception:  # noqa: BLE001
                    cls = vio[0][:80]
            rows.append((gid, prop, found, rc, round(dt, 1), cls, tests))
            print(f"{gid:40s} {prop} {'FOUND ' if found else 'MISSED'} rc={rc} {dt:6.1f}s {cls} {tests}", flush=True)
            if not found:
                missed += 1
                if rc not in (0, 1):
                    print(out[-1500:])
        finally:
            shutil.rmtree(scratch, ignore_errors=True)
    print(f"sensitivity self-test: {len(rows) - missed}/{len(rows)} seeded defects found")
    return 1 if missed else 0


if __name__ == "__main__":
    sys.exit(main())
