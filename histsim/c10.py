"""C10 — results depend only on hyper-parameters, training data and the input.

World of clients (detectors, scorers) sharing scorer instances; a seeded scheduler
interleaves their public calls with faults; every output is compared with a brand-new
twin built from the hyper-parameters read off the history object and fitted on the
client's training lineage (in-process, and in a pristine process).  See DESIGN 3–4.1.
"""

import copy
import json

import numpy as np
import pandas as pd

from histsim import core
from histsim.core import (
    FAULTS,
    LineTracer,
    SimInterrupt,
    canon,
    close_enough,
    concat_lineage,
    dataset_object,
    digest,
    extract,
    fingerprint_arg,
    spec_json,
    subobjects,
)

UNSPEC = "UNSPEC"
OUTPUT_OPS = ("predict", "transform", "transform_scores")
FIT_OUTPUT_OPS = ("fit_predict", "fit_transform")
DATA_OPS = ("fit",) + OUTPUT_OPS + FIT_OUTPUT_OPS
FITTED_PARAMS = ("threshold_", "penalty_", "collective_penalty_", "point_penalty_")
REFIT_OPS = ("fit", "update", "update_predict") + OUTPUT_OPS + FIT_OUTPUT_OPS


# --------------------------------------------------------------------------------------
# calling
# --------------------------------------------------------------------------------------
def call(obj, op, arg, y=None):
    """One public call.  Returns (status, canonical, raw)."""
    core.budget_start()
    try:
        if y is not None and op in ("fit", "update", "update_predict", "fit_predict", "fit_transform"):
            if op in ("fit", "update", "update_predict"):
                getattr(obj, op)(arg, y)
                return ("ok", None, None)
            raw = getattr(obj, op)(arg, y)
            return ("ok", canon(raw), raw)
        if op == "fit":
            obj.fit(arg)
            return ("ok", None, None)
        if op == "update":
            obj.update(arg)
            return ("ok", None, None)
        if op == "update_predict":
            obj.update_predict(arg)
            return ("ok", None, None)
        if op == "transform_scores":
            raw = obj.transform_scores(arg)
        elif op == "evaluate":
            raw = obj.evaluate(arg)
        else:
            raw = getattr(obj, op)(arg)
        return ("ok", canon(raw), raw)
    except (SimInterrupt, core.SimAllocFail):
        return ("int", None, None)
    except core.CallHang:
        return ("hang", None, None)
    except Exception as e:  # noqa: BLE001
        return ("exc", type(e).__name__, None)
    finally:
        core.budget_stop()


def fitted_params(obj):
    out = {}
    for k in FITTED_PARAMS:
        if k in vars(obj):
            out[k] = canon(vars(obj)[k])
    return out


def fitted_params_raw(obj):
    return {k: vars(obj)[k] for k in FITTED_PARAMS if k in vars(obj)}


def twin_outcome(spec, lineage, op, arg, route="ctor", want_fitted=False):
    """Outcome of ``op(arg)`` on a brand-new object built from ``spec`` and fitted on the
    lineage.  Returns dict(status=..., canon=..., raw=..., fitted=...) or
    dict(status='nobuild'|'nofit')."""
    s = json.loads(spec) if isinstance(spec, str) else spec
    try:
        if route == "setp":
            tw = core.build_via_set_params(s)
        else:
            tw = core.build(s)
    except Exception as e:  # noqa: BLE001
        return {"status": "nobuild", "why": type(e).__name__}
    if isinstance(lineage, list):
        r = call(tw, "fit", concat_lineage(lineage))
        if r[0] != "ok":
            return {"status": "nofit", "why": r[1]}
    out = {"status": "done", "fitted": None}
    if op is None:
        out["res"] = ("ok", None, None)
    else:
        out["res"] = call(tw, op, arg)
    if want_fitted:
        out["fitted"] = fitted_params(tw)
        out["fitted_raw"] = fitted_params_raw(tw)
    return out


def pristine_handler(req):
    """Runs in a pristine grandchild process."""
    core.register_classes()
    r = twin_outcome(req["spec"], req["lineage"], req["op"], req["arg"], want_fitted=req.get("want_fitted", False))
    if r["status"] != "done":
        return {"status": r["status"]}
    res = r["res"]
    return {"status": "done", "res": (res[0], res[1]), "fitted": r.get("fitted")}


# --------------------------------------------------------------------------------------
# world
# --------------------------------------------------------------------------------------
class Client:
    def __init__(self, name, obj):
        from skchange.base import BaseDetector

        self.name = name
        self.obj = obj
        self.is_det = isinstance(obj, BaseDetector)
        self.either = None
        self.lin = None  # None | list of (chunk, ds_id) | UNSPEC
        self.fitspec = None
        self.stale = False
        self.amb = False
        self.last_ds = None
        self.prev_interrupted_output = False
        self.recovering = False
        self.sharer_refit_since_fit = False
        self.tolerant = False
        self.unspec_steps = 0

    @property
    def kind(self):
        return type(self.obj).__name__

    # the training lineage; any assignment ends the "overwritten in place" state
    @property
    def lin(self):
        return self._lin

    @lin.setter
    def lin(self, v):
        self._lin = v
        self.either = None

    def chunks(self):
        if not isinstance(self.lin, list):
            return self.lin
        out = core.Lineage(c for c, _ in self.lin)
        out.overlap = bool(getattr(self, "overlap", False))
        return out


class Sim:
    """Executes steps against the real library and checks them."""

    def __init__(self, trace, pristine=None):
        self.trace = trace
        self.cfg = trace.get("config", {})
        self.pristine = pristine
        self.ds_spec = {d["id"]: d for d in trace["datasets"]}
        self.ds_obj = {d["id"]: dataset_object(d) for d in trace["datasets"]}
        self.ds_fp = {k: fingerprint_arg(v) for k, v in self.ds_obj.items()}
        self.clients = []
        self.env = {}
        core.register_classes()
        self.build_failures = 0
        for od in trace["objects"]:
            try:
                obj = core.build(od["spec"], self.env)
            except Exception:  # noqa: BLE001
                self.build_failures += 1
                continue
            self.env[od["name"]] = obj
            if od.get("client", True):
                self.clients.append(Client(od["name"], obj))
        self.events = []
        self.violations = []
        self.returned = []
        self.torn = {}  # id -> object whose (re-)initialisation was rejected
        self.stats = {
            "steps": 0,
            "comparisons": 0,
            "compared_by_op": {},
            "faults_fired": {"bad_data": 0, "singular": 0, "interrupt": 0, "flaky": 0, "bad_cuts": 0},
            "faults_planned": {"interrupt": 0, "flaky": 0},
            "probes": {},
            "skipped_unspecified": 0,
            "tolerant_pass": 0,
            "twin_nofit": 0,
            "twin_nobuild": 0,
            "unspec_client_steps": 0,
            "recoveries_compared": 0,
            "samples_streamed": 0,
            "interrupt_sites": {},
        }
        self.sig = []
        self.nontrivial = False

    # ---------------------------------------------------------------- helpers
    def probe(self, name, k=1):
        self.stats["probes"][name] = self.stats["probes"].get(name, 0) + k

    def violate(self, cls, cl, op, step_i, fault, detail):
        self.violations.append(
            {
                "class": cls,
                "client_kind": cl.kind if cl is not None else None,
                "client": cl.name if cl is not None else None,
                "op": op,
                "step": step_i,
                "fault": fault,
                "detail": detail,
            }
        )

    def world_specs(self):
        out = []
        for c in self.clients:
            try:
                out.append(spec_json(c.obj))
            except Exception as e:  # noqa: BLE001
                out.append("ERR:" + type(e).__name__)
        return out

    def trees(self):
        return [set(id(o) for o in subobjects(c.obj)) for c in self.clients]

    def sharers(self, i, trees=None):
        trees = trees or self.trees()
        return [j for j in range(len(self.clients)) if j != i and trees[i] & trees[j]]

    def layout(self, ds_id):
        d = self.ds_spec[ds_id]
        return (d["container"], tuple(d["columns"]), d["index"]["kind"], d["index"]["start"], d.get("dtype", "float64"))

    def is_torn(self, cl):
        if not self.torn:
            return False
        return any(id(o) in self.torn for o in subobjects(cl.obj))

    def comparable(self, cl, cur, ignore_lin=False):
        if ignore_lin:
            if cl.either is None or cl.stale:
                return False
        elif cl.lin == UNSPEC or cl.stale:
            return False
        if self.is_torn(cl):
            return False
        if not cl.is_det and cl.amb:
            return False
        if cl.lin is None and not ignore_lin:
            return True
        return cl.fitspec == cur

    def mark_sharers(self, i, op, ds_id):
        """A refitting op by client i makes direct evaluation of sharing scorer clients
        ambiguous (relaxation 2), unless it ran on their own fit data."""
        trees = self.trees()
        for j in self.sharers(i, trees):
            cj = self.clients[j]
            cj.sharer_refit_since_fit = True
            if cj.is_det:
                continue
            same = (
                isinstance(cj.lin, list)
                and len(cj.lin) == 1
                and ds_id is not None
                and cj.lin[0][1] == ds_id
                and op in DATA_OPS
            )
            if same:
                # the sharer refitted the scorer on the same values, but possibly laid
                # out differently in memory (X.values, a copy ...): float outputs of cj are
                # judged to rounding only until its own next fit
                self.probe("sharer_ran_on_same_data")
                cj.tolerant = True
            else:
                cj.amb = True

    def dry_run(self, i, op, arg):
        """Measure how many skchange line events and stub-peer calls the call would make
        (to place an interrupt / flaky fault).  The measurement runs in a forked child on
        the world as it is, so it cannot leave anything behind in this process — not
        even in module-level state of the code under test (a dry run that did once made
        a violation irreproducible from its replay file)."""
        from histsim.runner import isolated

        def inner():
            tr = LineTracer(None)
            FAULTS.disarm()
            FAULTS_counts.clear()
            FAULTS_counting[0] = True
            try:
                tr.run(lambda: call(self.clients[i].obj, op, arg))
            finally:
                FAULTS_counting[0] = False
            return {"count": tr.count, "counts": dict(FAULTS_counts)}

        res = isolated(inner, 120)
        if "harness_error" in res:
            return 0, {}
        return res["count"], res["counts"]

    def dry_run_sites(self, i, op, arg):
        """As dry_run, but records the (file, line) of every line event."""
        from histsim.runner import isolated

        def inner():
            tr = LineTracer(None, record_sites=True)
            FAULTS.disarm()
            FAULTS_counts.clear()
            FAULTS_counting[0] = True
            try:
                tr.run(lambda: call(self.clients[i].obj, op, arg))
            finally:
                FAULTS_counting[0] = False
            return {"sites": tr.sites, "counts": dict(FAULTS_counts)}

        res = isolated(inner, 300)
        if "harness_error" in res:
            return [], {}
        return res["sites"], res["counts"]

    # ---------------------------------------------------------------- execution
    def execute(self, st):
        i_step = len(self.events)
        self.stats["steps"] += 1
        for c in self.clients:
            if c.lin == UNSPEC:
                c.unspec_steps += 1
                self.stats["unspec_client_steps"] += 1
        op = st["op"]
        ev = {"i": i_step, "op": op, "c": st.get("c")}
        before = self.world_specs()
        n_before = len(self.clients)
        if op in ("set_params", "clone", "reset", "construct", "mutate", "copy"):
            getattr(self, "op_" + op)(st, ev, i_step)
        elif st.get("c") is None or st["c"] >= len(self.clients):
            ev["noop"] = True
        else:
            self.op_call(st, ev, i_step)
        after = self.world_specs()
        if op == "set_params" and not ev.get("noop"):
            self.check_set_params_specs(st, ev, before, after, i_step)
        elif op == "construct":
            if before != after[:n_before]:
                self.violate("params_changed", None, op, i_step, None, "construct changed another object's hyper-parameters")
        elif before != after and [k for k in range(len(before)) if before[k] != after[k] and k not in ev.get("torn", [])]:
            idx = [k for k in range(len(before)) if before[k] != after[k] and k not in ev.get("torn", [])]
            cl = self.clients[idx[0]]
            if op == "clone" and not ev.get("noop") and idx == [st["c"]]:
                self.violate("clone_params_differ", cl, op, i_step, None, {"before": before[idx[0]], "after": after[idx[0]]})
            else:
                self.violate(
                    "params_changed",
                    self.clients[st["c"]] if st.get("c") is not None and st["c"] < len(self.clients) else cl,
                    op,
                    i_step,
                    (st.get("fault") or {}).get("kind"),
                    {"changed": [self.clients[k].name for k in idx], "before": before[idx[0]], "after": after[idx[0]]},
                )
        self.events.append(ev)
        return ev

    # -- set_params / clone / reset / construct
    def resolve_path(self, obj, path):
        parts = path.split("__")
        chain = [obj]
        for p in parts[:-1]:
            obj = obj.get_params(deep=False)[p]
            chain.append(obj)
        return chain, parts[-1]

    def op_set_params(self, st, ev, i_step):
        i = st["c"]
        if i >= len(self.clients):
            ev["noop"] = True
            return
        cl = self.clients[i]
        try:
            chain, leaf = self.resolve_path(cl.obj, st["path"])
            if not hasattr(chain[-1], "get_params") or leaf not in chain[-1].get_params(deep=False):
                raise KeyError(leaf)
            value = core.build(st["value"], self.env)
        except Exception:  # noqa: BLE001
            ev["noop"] = True
            return
        target = chain[-1]
        ev["target_ids"] = [id(o) for o in chain]
        ev["leaf"] = leaf
        ev["value_spec"] = extract(value)
        trees = self.trees()
        n_holding = sum(1 for t in trees if id(target) in t)
        chain_ids = set(id(o) for o in chain)
        ev["holders"] = [j for j, t in enumerate(trees) if chain_ids & t]
        try:
            cl.obj.set_params(**{st["path"]: value})
            ev["res"] = "ok"
        except Exception as e:  # noqa: BLE001
            ev["res"] = "exc:" + type(e).__name__
        reset_ids = set(id(o) for o in chain)
        for j, cj in enumerate(self.clients):
            if id(cj.obj) in reset_ids:
                cj.lin, cj.fitspec, cj.stale, cj.amb = None, None, False, False
                cj.sharer_refit_since_fit = False
            elif reset_ids & trees[j]:
                if isinstance(cj.lin, list):
                    cj.stale = True
        if ev["res"] != "ok":
            # a rejected set_params may leave every object along the path torn (its
            # __init__ raised half-way): nothing is specified about such an object until
            # a later set_params / reset re-initialises it successfully
            for o in chain:
                self.torn[id(o)] = o
            for j in ev["holders"]:
                self.clients[j].lin = UNSPEC
            cl.lin = UNSPEC
            self.probe("set_params_rejected")
        else:
            for o in chain:
                self.torn.pop(id(o), None)
        if n_holding > 1:
            self.probe("set_params_on_shared_object")
        if len(chain) > 1:
            self.probe("nested_set_params")
        self.sig.append((cl.kind, "set_params", "nested" if len(chain) > 1 else "own", None))

    def check_set_params_specs(self, st, ev, before, after, i_step):
        ids = ev["target_ids"]
        target_id = ids[-1]
        leaf = ev["leaf"]
        # clients not holding the target must be unchanged; holders must show exactly
        # the targeted parameter changed
        for k, c in enumerate(self.clients):
            if k >= len(before):
                break
            holds = k in ev["holders"] or k == st["c"]
            if not holds:
                if before[k] != after[k]:
                    self.violate("params_changed", c, "set_params", i_step, None, {"changed": [c.name], "before": before[k], "after": after[k]})
                continue
            if ev["res"] != "ok" or before[k].startswith("ERR:") or after[k].startswith("ERR:"):
                continue
            exp = self.expected_after(c.obj, target_id, leaf, ev["value_spec"], json.loads(before[k]))
            if exp is not None and json.dumps(exp, sort_keys=True) != after[k]:
                self.violate(
                    "set_params_effect",
                    c,
                    "set_params",
                    i_step,
                    None,
                    {"expected": json.dumps(exp, sort_keys=True), "after": after[k]},
                )

    def expected_after(self, obj, target_id, leaf, value_spec, before_spec):
        """before_spec with ``leaf`` replaced at every node that is the target object."""

        def walk(o, s):
            if not (isinstance(s, dict) and "__cls__" in s):
                return s
            try:
                params = o.get_params(deep=False)
            except Exception:  # noqa: BLE001
                return s
            new = {}
            for k, v in s["params"].items():
                if id(o) == target_id and k == leaf:
                    new[k] = value_spec
                else:
                    new[k] = walk(params.get(k), v)
            return {"__cls__": s["__cls__"], "params": new}

        try:
            return walk(obj, before_spec)
        except Exception:  # noqa: BLE001
            return None

    def op_clone(self, st, ev, i_step):
        i = st["c"]
        if i >= len(self.clients):
            ev["noop"] = True
            return
        cl = self.clients[i]
        try:
            new = cl.obj.clone()
        except Exception as e:  # noqa: BLE001
            ev["res"] = "exc:" + type(e).__name__
            return
        ev["res"] = "ok"
        name = cl.name
        ncl = Client(name, new)
        self.clients[i] = ncl
        self.env[name] = new
        self.sig.append((ncl.kind, "clone", None, None))

    def op_copy(self, st, ev, i_step):
        """The client continues with a deep copy / a pickle round trip of its object: a
        copy in the fitted state, which must behave exactly like the original (the
        model state of the client carries over; shared scorers become private)."""
        import pickle

        i = st["c"]
        if i >= len(self.clients):
            ev["noop"] = True
            return
        cl = self.clients[i]
        try:
            new = copy.deepcopy(cl.obj) if st.get("how", "deepcopy") == "deepcopy" else pickle.loads(pickle.dumps(cl.obj))
        except Exception as e:  # noqa: BLE001
            ev["res"] = "exc:" + type(e).__name__
            return
        ev["res"] = "ok"
        cl.obj = new
        self.env[cl.name] = new
        # copying may lay stored arrays out differently in memory (a view of the caller's
        # DataFrame becomes a contiguous array), which moves the last bit of
        # layout-sensitive sums: float outputs are judged to rounding until the next fit
        cl.tolerant = True
        # a scorer client that had been refitted by sharers keeps its ambiguity; nothing
        # else changes in the model
        self.probe("continued_with_copy")
        self.sig.append((cl.kind, "copy", st.get("how", "deepcopy"), None))

    def op_reset(self, st, ev, i_step):
        i = st["c"]
        if i >= len(self.clients):
            ev["noop"] = True
            return
        cl = self.clients[i]
        trees = self.trees()
        for j, cj in enumerate(self.clients):
            if j != i and id(cl.obj) in trees[j] and cj.obj is not cl.obj and isinstance(cj.lin, list):
                # a component of cj was reset behind its back: needs a fit (relaxation 3)
                cj.stale = True
        try:
            cl.obj.reset()
            ev["res"] = "ok"
            self.torn.pop(id(cl.obj), None)
            cl.lin, cl.fitspec, cl.stale, cl.amb = None, None, False, False
        except Exception as e:  # noqa: BLE001
            # a rejected reset (its __init__ raised) leaves the object torn
            ev["res"] = "exc:" + type(e).__name__
            cl.lin = UNSPEC
            self.torn[id(cl.obj)] = cl.obj
            ev["torn"] = [j for j, t in enumerate(trees) if id(cl.obj) in t]
            for j in ev["torn"]:
                self.clients[j].lin = UNSPEC
            self.probe("reset_rejected")
        self.sig.append((cl.kind, "reset", None, None))

    def op_mutate(self, st, ev, i_step):
        """The user overwrites one of their own data objects in place (a reused buffer).
        Every client trained on that object is unspecified until its next fit; a later
        fit on the same object must see the new values."""
        d = st["d"]
        obj = self.ds_obj.get(d)
        if obj is None or self.ds_spec[d].get("bad"):
            ev["noop"] = True
            return
        self.check_returned()
        self.returned = []
        new = np.array(st["values"], dtype=self.ds_spec[d].get("dtype", "float64"))
        import copy as _copy

        before = _copy.deepcopy(obj)
        try:
            if isinstance(obj, np.ndarray):
                obj[...] = new.reshape(obj.shape)
            elif isinstance(obj, pd.Series):
                obj.iloc[:] = new.reshape(-1)
            else:
                obj.iloc[:, :] = new.reshape(obj.shape)
        except Exception:  # noqa: BLE001
            ev["noop"] = True
            return
        self.ds_fp[d] = fingerprint_arg(obj)
        for c in self.clients:
            if isinstance(c.lin, list) and any(ch is obj for ch, _ in c.lin):
                old = [(before if ch is obj else ch) for ch, _ in c.lin]
                new_ = [ch for ch, _ in c.lin]
                overlap = bool(getattr(c, "overlap", False))
                c.lin = UNSPEC
                # "the data given to the last fit" now has two readings (the values at
                # the time of the fit / the values the object holds now): an output must
                # agree with a fresh object under one of them
                c.either = (old, new_, overlap)
        self.probe("dataset_mutated_in_place")
        self.sig.append(("user", "mutate", None, None))
        ev["res"] = "ok"

    def op_construct(self, st, ev, i_step):
        try:
            obj = core.build(st["spec"], self.env)
        except Exception as e:  # noqa: BLE001
            ev["res"] = "exc:" + type(e).__name__
            ev["noop"] = True
            return
        ev["res"] = "ok"
        self.env[st["name"]] = obj
        self.clients.append(Client(st["name"], obj))
        self.sig.append((type(obj).__name__, "construct", None, None))

    # -- data-taking calls and evaluate
    def materialise_arg(self, st, cl):
        """Returns (arg, ds_id, relation, continuing)."""
        op = st["op"]
        if op == "evaluate":
            a = np.array(st["cuts"], dtype=st.get("cuts_dtype", "int64"))
            lay = st.get("cuts_layout")
            if lay == "view" and a.ndim == 2:
                # non-contiguous view into a larger array
                big = np.zeros((a.shape[0] * 2, a.shape[1] + 1), dtype=a.dtype)
                big[::2, 1:] = a
                a = big[::2, 1:]
            elif lay == "fortran" and a.ndim == 2:
                a = np.asfortranarray(a)
            elif lay == "list":
                a = [list(map(int, row)) for row in st["cuts"]] if st.get("cuts_dtype", "int64") != "float64" else a
            if st.get("cuts_1d") and not isinstance(a, list) and a.ndim == 2 and a.shape[0] == 1:
                a = a[0]
            if lay == "readonly" and not isinstance(a, list):
                a.flags.writeable = False
            return a, None, "cuts", False
        if op in ("update", "update_predict"):
            like = self.ds_spec[st["like"]]
            ds = dict(like)
            ds["values"] = st["values"]
            cont = False
            start = like["index"]["start"] + len(like["values"] or [])
            if isinstance(cl.lin, list) and like["container"] != "ndarray":
                first_ds = cl.lin[0][1]
                if first_ds is not None and self.layout(first_ds) == self.layout(st["like"]) and len(st["values"][0]) == len(like["columns"]):
                    cont = True
                    end = getattr(cl, "end", None)
                    if end is None:
                        end = sum(len(c) for c, _ in cl.lin)
                    back = min(int(st.get("overlap", 0)), end)
                    start = like["index"]["start"] + end - back
            return dataset_object(ds, index_start=start), None, "chunk", cont
        d = st["d"]
        arg = self.ds_obj[d]
        spec = self.ds_spec[d]
        rel = "bad" if spec.get("bad") else "other"
        if not spec.get("bad") and cl.last_ds is not None:
            if cl.last_ds == d:
                rel = "same"
            elif self.ds_spec[cl.last_ds].get("family") == spec.get("family"):
                rel = "twin"
        return arg, d, rel, False

    def op_call(self, st, ev, i_step):
        i = st["c"]
        cl = self.clients[i]
        op = st["op"]
        if op == "evaluate" and cl.is_det:
            ev["noop"] = True
            return
        if op != "evaluate" and op != "fit" and not cl.is_det:
            ev["noop"] = True
            return
        arg, ds_id, rel, cont = self.materialise_arg(st, cl)
        try:
            cur = spec_json(cl.obj)
        except Exception:  # noqa: BLE001
            cur = None
        fault = st.get("fault")
        fkind = fault["kind"] if fault else None
        y = None
        if op in ("update", "update_predict") and not getattr(cl, "has_y", False):
            # labels for a part of the training data only have no stated meaning
            st = dict(st, y=False)
        if st.get("y") and cl.is_det and hasattr(arg, "__len__") and op in ("fit", "update", "update_predict", "fit_predict", "fit_transform"):
            # optional ground-truth labels, as the caller's own pandas object with its
            # default index (they influence no output of these unsupervised detectors)
            y = pd.Series(np.arange(len(arg)) % 2, name="y")
            y_fp = fingerprint_arg(y)
            self.probe("y_passed")
        arg_fp = fingerprint_arg(arg)
        was_comparable = cur is not None and self.comparable(cl, cur)
        # (detectors only: their output calls take the data as the argument.  A scorer
        # like LocalAnomalyScore legitimately mixes sums taken at fit with rows read at
        # evaluate time, which agrees with neither reading.)
        either = cl.either if (cl.is_det and cur is not None and not was_comparable and self.comparable(cl, cur, ignore_lin=True)) else None
        lineage_before = cl.chunks()

        # ---- run the system under test (with the injected fault, if any)
        fired = None
        if fkind == "interrupt":
            self.stats["faults_planned"]["interrupt"] += 1
            tr = LineTracer(int(fault["at"]), alloc=bool(fault.get("alloc")))
            res = tr.run(lambda: call(cl.obj, op, arg, y))
            if tr.fired_at is not None and fault.get("alloc"):
                if res[0] == "exc":
                    # the allocation failure left the call as another exception
                    res = ("int", None, None)
                self.probe("alloc_fail_swallowed" if res[0] == "ok" else "alloc_fail_propagated")
            if res[0] == "int":
                fired = "interrupt"
                self.stats["faults_fired"]["interrupt"] += 1
                site = "%s:%d" % tr.fired_at
                ev["site"] = site
                self.stats["interrupt_sites"][site] = self.stats["interrupt_sites"].get(site, 0) + 1
        elif fkind == "flaky":
            self.stats["faults_planned"]["flaky"] += 1
            FAULTS.arm(fault["site"], int(fault["at"]))
            try:
                res = call(cl.obj, op, arg, y)
            finally:
                if FAULTS.fired:
                    fired = "flaky"
                    self.stats["faults_fired"]["flaky"] += 1
                FAULTS.disarm()
                FAULTS.fired = False
        else:
            res = call(cl.obj, op, arg, y)
        if res[0] == "hang":
            fired = "hang"
            self.stats["hangs"] = self.stats.get("hangs", 0) + 1
        ev["res"] = res[0] if res[0] != "exc" else "exc:" + res[1]
        ev["out"] = digest(res[1]) if res[0] == "ok" and res[1] is not None else None
        if fired:
            ev["fired"] = fired

        # ---- side-effect invariant: caller's data untouched
        if fingerprint_arg(arg) != arg_fp:
            self.violate("arg_mutated", cl, op, i_step, fkind, "the caller's argument object was modified by the call")
        if y is not None and fingerprint_arg(y) != y_fp:
            self.violate("arg_mutated", cl, op, i_step, fkind, "the caller's y object was modified by the call")
        if res[2] is not None and len(self.returned) < 400 and not st.get("scribble"):
            self.returned.append((i_step, cl.kind, op, res[2], res[1]))

        natural = None
        if res[0] == "exc":
            if self.ds_spec.get(ds_id, {}).get("bad"):
                natural = "bad_data"
            elif res[1] == "RuntimeError":
                natural = "singular"
            elif op == "evaluate" and st.get("bad_cuts"):
                natural = "bad_cuts"
            if natural:
                self.stats["faults_fired"][natural] += 1
        self.sig.append((cl.kind, op, rel, fired or natural))

        if op in ("fit",) + FIT_OUTPUT_OPS:
            cl.has_y = y is not None and res[0] == "ok"
        # ---- oracle
        compare_output = op in OUTPUT_OPS or op == "evaluate"
        if op in ("fit",) + FIT_OUTPUT_OPS:
            self.after_fit(cl, i, op, arg, ds_id, cur, res, fired, ev, i_step, fkind)
        elif op in ("update", "update_predict"):
            self.after_update(cl, i, op, arg, cont, cur, res, fired, ev, i_step, fkind, was_comparable, lineage_before, st.get("overlap", 0))
        elif compare_output:
            if not was_comparable and either is not None and not fired:
                self.compare_either(cl, op, arg, cur, either, res, ev, i_step, fkind)
            elif not was_comparable:
                self.stats["skipped_unspecified"] += 1
                ev["cmp"] = "skip"
            elif fired:
                ev["cmp"] = "fault"
            else:
                self.compare(cl, op, arg, cur, lineage_before, res, ev, i_step, fkind, rel)
            if op != "evaluate":
                self.mark_sharers(i, op, ds_id)
            cl.prev_interrupted_output = bool(fired)
        if ds_id is not None and not self.ds_spec[ds_id].get("bad"):
            cl.last_ds = ds_id
        if st.get("scribble") and res[0] == "ok" and res[2] is not None:
            # the caller post-processes the returned object in place (it is theirs now);
            # later calls must not see that
            raw = res[2]
            try:
                if isinstance(raw, np.ndarray) and raw.dtype.kind == "f" and raw.flags.writeable:
                    raw[...] = -7.25
                    self.probe("result_scribbled")
                elif isinstance(raw, pd.DataFrame) and len(raw) and all(dt.kind == "f" for dt in raw.dtypes):
                    raw.iloc[:, :] = -7.25
                    self.probe("result_scribbled")
            except Exception:  # noqa: BLE001
                pass

    def compare_either(self, cl, op, arg, cur, either, res, ev, i_step, fkind):
        """Output of a client whose training data object was overwritten in place since
        its fit: it must agree (discrete parts exactly, floats to rounding) with a fresh
        object fitted on the values as they were at the fit OR on the values the object
        holds now.  Agreeing with neither means the output reflects something else - e.g.
        results remembered for 'the same object' although its values changed."""
        old, new_, overlap = either
        outs = []
        for chunks in (old, new_):
            lin = core.Lineage(chunks)
            lin.overlap = overlap
            tw = twin_outcome(cur, lin, op, arg)
            if tw["status"] != "done" or tw["res"][0] == "hang":
                self.stats["skipped_unspecified"] += 1
                ev["cmp"] = "skip"
                return
            outs.append(tw["res"])
        self.probe("compared_after_overwrite_either_way")
        for r2 in outs:
            if res[:2] == r2[:2] or (res[0] == "ok" and r2[0] == "ok" and close_enough(res[2], r2[2])):
                ev["cmp"] = "eq_either"
                return
        ev["cmp"] = "NE"
        self.violate(
            "output_mismatch",
            cl,
            op,
            i_step,
            fkind,
            {"history": describe(res), "fresh_fitted_on_values_at_fit": describe(outs[0]), "fresh_fitted_on_values_now": describe(outs[1]), "spec": cur, "route": "ctor", "condition": "training data object overwritten in place since the fit"},
        )

    def compare(self, cl, op, arg, cur, lineage, res, ev, i_step, fkind, rel):
        tw = twin_outcome(cur, lineage, op, arg)
        if tw["status"] != "done":
            self.stats["twin_" + tw["status"]] += 1
            ev["cmp"] = tw["status"]
            return
        r2 = tw["res"]
        if r2[0] == "hang":
            ev["cmp"] = "twin_hang"
            self.stats["hangs"] = self.stats.get("hangs", 0) + 1
            return
        self.stats["comparisons"] += 1
        self.stats["compared_by_op"][op] = self.stats["compared_by_op"].get(op, 0) + 1
        ev["cmp"] = "eq"
        ok = res[:2] == r2[:2]
        if not ok and cl.tolerant and res[0] == "ok" and r2[0] == "ok" and close_enough(res[2], r2[2]):
            ok = True
            self.stats["tolerant_pass"] += 1
        if not ok and isinstance(lineage, list) and len(lineage) > 1 and res[0] == "ok" and r2[0] == "ok":
            if close_enough(res[2], r2[2]):
                ok = True
                self.stats["tolerant_pass"] += 1
        if not ok and isinstance(lineage, list) and len(lineage) > 1 and res[0] == "ok" and r2[0] == "ok":
            # update lineage: "old and new data combined" can be laid out in memory in
            # more than one way (pd.concat vs combine_first give C- vs F-ordered values);
            # where two fresh twins that differ only in that layout disagree with each
            # other, the decision sits at rounding level (e.g. a tuned threshold over
            # pure rounding noise) and the case is not judged
            try:
                alt = twin_outcome(cur, [core.alt_combination(lineage)], op, arg)
            except Exception:  # noqa: BLE001
                alt = {"status": "nobuild"}
            if alt["status"] == "done" and alt["res"][:2] != r2[:2]:
                self.stats["illconditioned_skip"] = self.stats.get("illconditioned_skip", 0) + 1
                ev["cmp"] = "illcond"
                return
        if not ok:
            ev["cmp"] = "NE"
            self.violate(
                "output_mismatch",
                cl,
                op,
                i_step,
                fkind,
                {"history": describe(res), "fresh": describe(r2), "spec": cur, "route": "ctor"},
            )
            return
        # probes: what kind of history stood behind this comparison
        if isinstance(lineage, list):
            self.nontrivial = True
        if rel == "twin":
            self.probe("twin_dataset_switch_compared")
        if cl.sharer_refit_since_fit:
            self.probe("compared_after_sharer_refit")
        if cl.prev_interrupted_output:
            self.probe("compared_after_interrupted_output")
        if isinstance(lineage, list) and len(lineage) > 1:
            self.probe("compared_on_update_lineage")
        if cl.recovering:
            self.probe("compared_after_recovery")
            self.stats["recoveries_compared"] += 1
            cl.recovering = False
        if op == "evaluate":
            self.probe("evaluate_compared")
        if res[0] == "exc":
            self.probe("compared_exception_outcome")
        # further construction routes
        routes = self.cfg.get("routes", []) if not cl.tolerant else []
        for route in routes:
            if route == "clone":
                try:
                    t2 = cl.obj.clone()
                except Exception:  # noqa: BLE001
                    continue
                if isinstance(lineage, list):
                    if call(t2, "fit", concat_lineage(lineage))[0] != "ok":
                        continue
                r3 = call(t2, op, arg)
            elif route == "setp":
                t = twin_outcome(cur, lineage, op, arg, route="setp")
                if t["status"] != "done":
                    continue
                r3 = t["res"]
            else:
                continue
            if r3[0] == "hang":
                continue
            self.probe("route_" + route + "_compared")
            if r3[:2] != res[:2] and not (
                isinstance(lineage, list) and len(lineage) > 1 and r3[0] == "ok" and res[0] == "ok" and close_enough(res[2], r3[2])
            ):
                ev["cmp"] = "NE"
                self.violate("output_mismatch", cl, op, i_step, fkind, {"history": describe(res), "fresh": describe(r3), "spec": cur, "route": route})
                return
        if self.pristine is not None and self.cfg.get("pristine") and not cl.tolerant:
            pr = self.pristine.ask({"spec": cur, "lineage": lineage, "op": op, "arg": arg})
            if pr["status"] == "done" and pr["res"][0] != "hang":
                self.probe("pristine_compared")
                if pr["res"][:2] != res[:2]:
                    tol_ok = False
                    if isinstance(lineage, list) and len(lineage) > 1:
                        tol_ok = False  # pristine returns canonical only; exact required
                    if not tol_ok:
                        ev["cmp"] = "NE"
                        self.violate(
                            "pristine_mismatch",
                            cl,
                            op,
                            i_step,
                            fkind,
                            {"history": describe(res), "fresh": describe(pr["res"]), "spec": cur, "route": "pristine"},
                        )

    def after_fit(self, cl, i, op, arg, ds_id, cur, res, fired, ev, i_step, fkind):
        out_op = {"fit": None, "fit_predict": "predict", "fit_transform": "transform"}[op]
        was_unspec = cl.lin == UNSPEC
        if fired:
            cl.lin = UNSPEC
            ev["cmp"] = "fault"
            self.probe("torn_fit_observed")
            self.mark_sharers(i, op, ds_id)
            return
        # fit's own outcome depends only on (hyper-parameters, X): always comparable when
        # a twin can be built
        tw = None
        torn = self.is_torn(cl)
        if cur is not None and not torn:
            tw = self.fresh_fit(cur, arg, out_op)
        if torn:
            cl.lin = UNSPEC
            ev["cmp"] = "torn"
            self.probe("call_on_torn_object")
        elif res[0] == "ok":
            cl.lin = [(arg, ds_id)]
            cl.overlap = False
            cl.end = len(arg) if hasattr(arg, "__len__") else None
            cl.fitspec = cur
            cl.stale = False
            cl.amb = False
            cl.tolerant = False
            cl.sharer_refit_since_fit = False
            if was_unspec:
                cl.recovering = True
                self.probe("recovered_by_fit")
        else:
            cl.lin = UNSPEC
            self.probe("failed_fit")
        if tw is not None and tw["status"] == "done" and tw["res"][0] == "hang":
            ev["cmp"] = "twin_hang"
        elif tw is not None and tw["status"] == "done":
            r2 = tw["res"]
            self.stats["comparisons"] += 1
            self.stats["compared_by_op"][op] = self.stats["compared_by_op"].get(op, 0) + 1
            ev["cmp"] = "eq"
            if res[:2] != r2[:2]:
                ev["cmp"] = "NE"
                self.violate("output_mismatch", cl, op, i_step, fkind, {"history": describe(res), "fresh": describe(r2), "spec": cur, "route": "ctor"})
            elif res[0] == "ok" and cl.is_det:
                fp = fitted_params(cl.obj)
                # only names present on both sides are judged: an implementation that
                # computes a threshold lazily (at the first predict) is as good as one
                # that computes it at fit; a stale value shows in the outputs
                common = set(fp) & set(tw["fitted"])
                if any(fp[k] != tw["fitted"][k] for k in common):
                    ev["cmp"] = "NE"
                    self.violate(
                        "fitted_param_mismatch",
                        cl,
                        op,
                        i_step,
                        fkind,
                        {"history": {k: repr(v) for k, v in fitted_params_raw(cl.obj).items()}, "fresh": {k: repr(v) for k, v in tw["fitted_raw"].items()}, "spec": cur},
                    )
                else:
                    self.probe("fitted_params_compared")
        elif tw is not None:
            self.stats["twin_" + tw["status"]] += 1
            ev["cmp"] = tw["status"]
            if res[0] == "ok" and tw["status"] == "nobuild":
                # the object works although a fresh object with its hyper-parameters
                # cannot even be constructed: outputs are not compared (DESIGN 3.5)
                cl.lin = UNSPEC
        self.mark_sharers(i, op, ds_id)

    def fresh_fit(self, cur, arg, out_op):
        s = json.loads(cur)
        try:
            tw = core.build(s)
        except Exception as e:  # noqa: BLE001
            return {"status": "nobuild", "why": type(e).__name__}
        r = call(tw, "fit", arg)
        if r[0] == "ok" and out_op is not None:
            r = call(tw, out_op, arg)
        return {"status": "done", "res": r, "fitted": fitted_params(tw), "fitted_raw": fitted_params_raw(tw)}

    def after_update(self, cl, i, op, arg, cont, cur, res, fired, ev, i_step, fkind, was_comparable, lineage_before, st_overlap=0):
        self.stats["samples_streamed"] += len(arg) if hasattr(arg, "__len__") else 0
        if fired:
            cl.lin = UNSPEC
            ev["cmp"] = "fault"
            self.mark_sharers(i, op, None)
            return
        if cl.lin is None:
            if res[0] != "exc":
                # update on a never-fitted object went through: no stated meaning
                cl.lin = UNSPEC
                ev["cmp"] = "noise"
                self.mark_sharers(i, op, None)
                return
            # not fitted: nothing changes
            if was_comparable:
                tw = twin_outcome(cur, None, "update", arg)
                if tw["status"] == "done" and tw["res"][0] != "hang":
                    self.stats["comparisons"] += 1
                    ev["cmp"] = "eq"
                    if tw["res"][:2] != res[:2]:
                        ev["cmp"] = "NE"
                        self.violate("output_mismatch", cl, op, i_step, fkind, {"history": describe(res), "fresh": describe(tw["res"]), "spec": cur, "route": "ctor"})
            return
        if not isinstance(cl.lin, list) or not cont or cur is None:
            # noise step (relaxation 4) or unspecified prior state
            if cl.lin is not None:
                cl.lin = UNSPEC
            ev["cmp"] = "noise"
            self.mark_sharers(i, op, None)
            return
        if res[0] != "ok":
            # update == fit on old + new: where a fresh object can be fitted on the
            # combined data, update must not fail
            if was_comparable and res[0] == "exc" and op == "update":
                both = core.Lineage(list(cl.chunks()) + [arg])
                both.overlap = bool(getattr(cl, "overlap", False)) or int(st_overlap) > 0
                tw = twin_outcome(cur, both, None, None)
                if tw["status"] == "done":
                    # the same combined data laid out the other way: if a fresh object
                    # cannot be fitted on that, the failure sits at rounding level (a
                    # numerically singular slice) and the case is not judged
                    try:
                        alt = twin_outcome(cur, [core.alt_combination(both)], None, None)
                    except Exception:  # noqa: BLE001
                        alt = {"status": "done"}
                    if alt["status"] != "done":
                        self.stats["illconditioned_skip"] = self.stats.get("illconditioned_skip", 0) + 1
                        tw = {"status": "illcond"}
                if tw["status"] == "done":
                    self.stats["comparisons"] += 1
                    ev["cmp"] = "NE"
                    self.violate("update_fails_where_fit_succeeds", cl, op, i_step, fkind, {"history": describe(res), "fresh": "fit on the combined data succeeds", "spec": cur})
            cl.lin = UNSPEC
            self.probe("failed_update")
            self.mark_sharers(i, op, None)
            return
        end = getattr(cl, "end", None)
        if end is None:
            end = sum(len(c) for c, _ in cl.lin)
        back = min(int(st_overlap), end)
        if back > 0:
            cl.overlap = True
            self.probe("update_with_overlapping_index")
        cl.end = max(end, end - back + len(arg))
        cl.lin = cl.lin + [(arg, None)]
        cl.fitspec = cur
        cl.stale = False
        cl.sharer_refit_since_fit = False
        self.probe("update_ok")
        # update == fit on old + new: fitted parameters of a twin fitted on the
        # concatenation
        tw = twin_outcome(cur, cl.chunks(), None, None, want_fitted=True)
        if tw["status"] == "done":
            self.stats["comparisons"] += 1
            self.stats["compared_by_op"][op] = self.stats["compared_by_op"].get(op, 0) + 1
            ev["cmp"] = "eq"
            fp = fitted_params(cl.obj)
            common = set(fp) & set(tw["fitted"])
            if any(fp[k] != tw["fitted"][k] for k in common):
                raw_h, raw_t = fitted_params_raw(cl.obj), tw["fitted_raw"]
                if all(close_enough(raw_h[k], raw_t[k]) for k in common):
                    self.stats["tolerant_pass"] += 1
                else:
                    ev["cmp"] = "NE"
                    self.violate(
                        "fitted_param_mismatch",
                        cl,
                        op,
                        i_step,
                        fkind,
                        {"history": {k: repr(v) for k, v in raw_h.items()}, "fresh": {k: repr(v) for k, v in raw_t.items()}, "spec": cur},
                    )
        else:
            self.stats["twin_" + tw["status"]] += 1
            ev["cmp"] = tw["status"]
            cl.lin = UNSPEC
        self.mark_sharers(i, op, None)

    # ---------------------------------------------------------------- end of history
    def finish(self):
        i_step = len(self.events)
        for k, v in self.ds_obj.items():
            if fingerprint_arg(v) != self.ds_fp[k]:
                self.violate("arg_mutated", None, "end", i_step, None, f"dataset {k} differs from its value at the start of the history")
        self.check_returned()

    def check_returned(self):
        for (st_i, kind, op, raw, can) in self.returned:
            if canon(raw) != can:
                self.violations.append(
                    {
                        "class": "returned_value_mutated",
                        "client_kind": kind,
                        "client": None,
                        "op": op,
                        "step": st_i,
                        "fault": None,
                        "detail": "a value returned earlier was modified by a later call",
                    }
                )
                break

    def event_digest(self):
        return digest([(e["i"], e["op"], e.get("c"), e.get("res"), e.get("out"), e.get("cmp"), e.get("fired"), e.get("site")) for e in self.events])


FAULTS_counts = {}
FAULTS_counting = [False]
_orig_tick = core.FaultPlan.tick


def _tick(self, site):
    if FAULTS_counting[0]:
        FAULTS_counts[site] = FAULTS_counts.get(site, 0) + 1
    return _orig_tick(self, site)


core.FaultPlan.tick = _tick


def describe(res):
    if res[0] == "ok":
        return "ok:" + digest(res[1]) + ":" + short(res[2] if len(res) > 2 else None)
    return res[0] + ":" + str(res[1])


def short(raw):
    if raw is None:
        return ""
    try:
        if isinstance(raw, pd.DataFrame):
            if "ilocs" in raw.columns:
                return "ilocs=" + str([str(v) for v in raw["ilocs"]][:12])
            return "df" + str(raw.shape) + str(raw.to_numpy().ravel()[:8].tolist())
        if isinstance(raw, pd.Series):
            return "s" + str(raw.to_numpy()[:8].tolist())
        if isinstance(raw, np.ndarray):
            return "a" + str(raw.shape) + str(raw.ravel()[:8].tolist())
    except Exception:  # noqa: BLE001
        pass
    return type(raw).__name__
