"""Batch runner: seeded runs over a process pool, minimisation, replay files, evidence,
known findings, exit codes (0 held / 1 violation / 2 harness error)."""

import concurrent.futures as cf
import faulthandler
import importlib
import json
import multiprocessing as mp
import os
import signal
import subprocess
import sys
import time
import traceback

from histsim import boot, core

VERIF = boot.VERIF
PROP_MODULE = {"C10": "histsim.c10gen", "C01": "histsim.c01", "C17": "histsim.c17"}

_PRISTINE = None
_PROP = None


class HarnessTimeout(BaseException):
    pass


def _alarm(signum, frame):
    raise HarnessTimeout("run exceeded its wall-clock guard")


def get_module(prop):
    return importlib.import_module(PROP_MODULE[prop])


def _init_worker(prop):
    global _PRISTINE, _PROP
    _PROP = prop
    core.register_classes()
    core.install_call_budget()
    mod = get_module(prop)
    handler = getattr(mod, "PRISTINE_HANDLER", None)
    if handler is not None:
        from histsim.pristine import PristineServer

        _PRISTINE = PristineServer(handler)
    faulthandler.enable()


def _slim(res, keep_trace):
    out = {
        "violations": res["violations"],
        "stats": res["stats"],
        "digest": res["digest"],
        "signature": res["signature"],
        "nontrivial": res["nontrivial"],
        "run": res["trace"]["run"],
        "nsteps": len(res["trace"]["steps"]),
    }
    if keep_trace or res["violations"]:
        out["trace"] = res["trace"]
    if res.get("sample") is not None:
        out["sample"] = res["sample"]
    return out


def isolated(fn, timeout):
    """Run fn() in a forked child and return its (picklable) result.

    Every simulated history starts from the same pristine process state (modules
    imported, nothing of skchange executed), so a run is a function of its seed — or of
    its replay file — alone, even if the code under test keeps process-global state."""
    import select

    from histsim.pristine import _recv, _send

    r, w = os.pipe()
    pid = os.fork()
    if pid == 0:
        code = 0
        try:
            os.close(r)
            try:
                res = fn()
            except BaseException:  # noqa: BLE001
                res = {"harness_error": traceback.format_exc()}
            _send(w, res)
        except BaseException:  # noqa: BLE001
            code = 3
        finally:
            os._exit(code)
    os.close(w)
    try:
        ready, _, _ = select.select([r], [], [], timeout)
        if not ready:
            os.kill(pid, signal.SIGKILL)
            return {"harness_error": "timeout: run exceeded its wall-clock guard"}
        try:
            return _recv(r)
        except EOFError:
            return {"harness_error": "run process died without a result"}
    finally:
        os.close(r)
        try:
            os.waitpid(pid, 0)
        except ChildProcessError:
            pass


def _run_chunk(args):
    prop, seed, tier, indices, per_run_guard, sample_idx, fn = args
    mod = get_module(prop)
    run = getattr(mod, fn)
    out = []
    for idx in indices:
        res = isolated(lambda: _slim(run(seed, idx, tier, _PRISTINE), keep_trace=idx in sample_idx), per_run_guard)
        if "harness_error" in res:
            res = {"harness_error": f"run={idx}: " + res["harness_error"], "run": idx}
        out.append(res)
    return out


def run_batch(prop, seed, tier, indices, workers=None, per_run_guard=120, chunk=8, sample_idx=(), fn="run_one"):
    workers = workers or int(os.environ.get("VERIF_WORKERS", "16"))
    chunks = [indices[i : i + chunk] for i in range(0, len(indices), chunk)]
    results = []
    if workers <= 1:
        _init_worker(prop)
        for c in chunks:
            results += _run_chunk((prop, seed, tier, c, per_run_guard, set(sample_idx), fn))
        if _PRISTINE is not None:
            _PRISTINE.close()
        return results
    ctx = mp.get_context("fork")
    with cf.ProcessPoolExecutor(max_workers=workers, mp_context=ctx, initializer=_init_worker, initargs=(prop,)) as ex:
        futs = [ex.submit(_run_chunk, (prop, seed, tier, c, per_run_guard, set(sample_idx), fn)) for c in chunks]
        for f in futs:
            try:
                results += f.result(timeout=per_run_guard * chunk + 60)
            except Exception as e:  # noqa: BLE001
                results.append({"harness_error": f"worker failed: {type(e).__name__}: {e}", "run": -1})
    return results


# --------------------------------------------------------------------------------------
# minimisation (ddmin over steps, then fault simplification)
# --------------------------------------------------------------------------------------
def vkey(v):
    return (v["class"], v["client_kind"], v["op"])


def minimise(prop, trace, violation, pristine=None, budget_s=120):
    mod = get_module(prop)
    key = vkey(violation)
    t0 = time.time()

    def fails(tr):
        r = isolated(lambda: {"violations": mod.replay(tr, pristine)["violations"]}, 300)
        if "harness_error" in r:
            return None
        for v in r["violations"]:
            if vkey(v) == key:
                return v
        return None

    def with_steps(steps):
        t = dict(trace)
        t["steps"] = steps
        return t

    steps = list(trace["steps"])
    v0 = fails(with_steps(steps))
    if v0 is None:
        return trace, violation, False
    # truncate after the violating step
    steps = steps[: v0["step"] + 1] if v0["step"] < len(steps) else steps
    if fails(with_steps(steps)) is None:
        steps = list(trace["steps"])
    n = 2
    while len(steps) >= 2 and time.time() - t0 < budget_s:
        size = max(1, len(steps) // n)
        removed = False
        for start in range(0, len(steps), size):
            cand = steps[:start] + steps[start + size :]
            if cand and fails(with_steps(cand)) is not None:
                steps = cand
                n = max(n - 1, 2)
                removed = True
                break
        if not removed:
            if size == 1:
                break
            n = min(len(steps), n * 2)
    # simplify faults
    for k in range(len(steps)):
        if time.time() - t0 > budget_s:
            break
        st = steps[k]
        if st.get("fault"):
            cand = [dict(s) for s in steps]
            del cand[k]["fault"]
            if fails(with_steps(cand)) is not None:
                steps = cand
                continue
            at = st["fault"]["at"]
            for a in (1, at // 4, at // 2):
                if 1 <= a < at:
                    cand = [dict(s) for s in steps]
                    cand[k]["fault"] = dict(st["fault"], at=a)
                    if fails(with_steps(cand)) is not None:
                        steps = cand
                        break
    tr = with_steps(steps)
    hook = getattr(mod, "shrink_world", None)
    if hook is not None:
        try:
            tr2 = hook(tr, lambda t: fails(t) is not None)
            if tr2 is not None and fails(tr2) is not None:
                tr = tr2
        except Exception:  # noqa: BLE001
            pass
    v = fails(tr)
    if v is None:
        return trace, violation, False
    return tr, v, True


# --------------------------------------------------------------------------------------
# known findings
# --------------------------------------------------------------------------------------
def load_known():
    p = os.path.join(VERIF, "known_findings.json")
    if not os.path.exists(p):
        return []
    return json.load(open(p))


def match_known(prop, v, known):
    for k in known:
        if k.get("status") != "open" or k.get("property") != prop:
            continue
        s = k.get("signature", {})
        if all(v.get(f) == s[f] for f in ("class", "client_kind", "op") if f in s):
            cond = s.get("condition")
            if cond and cond not in json.dumps(v.get("detail")):
                continue
            return k
    return None


# --------------------------------------------------------------------------------------
# top level
# --------------------------------------------------------------------------------------
def replay_in_fresh_interpreter(prop, path):
    cmd = [sys.executable, os.path.join(VERIF, "check.py"), prop, "--replay", path]
    env = dict(os.environ)
    env.pop("VERIF_BOOTED", None)
    p = subprocess.run(cmd, capture_output=True, text=True, env=env, timeout=600)
    return p.returncode, p.stdout + p.stderr


def write_evidence(prop, payload):
    d = os.path.join(VERIF, "evidence")
    os.makedirs(d, exist_ok=True)
    tmp = os.path.join(d, f".{prop}.json.tmp")
    with open(tmp, "w") as f:
        json.dump(payload, f, indent=1, sort_keys=True, default=str)
    os.replace(tmp, os.path.join(d, f"{prop}.json"))


def merge_stats(acc, s):
    for k, v in s.items():
        if isinstance(v, dict):
            merge_stats(acc.setdefault(k, {}), v)
        elif isinstance(v, (int, float)) and not isinstance(v, bool):
            acc[k] = acc.get(k, 0) + v
    return acc


def abbreviate(trace, max_steps=40):
    steps = []
    for st in trace["steps"][:max_steps]:
        s = {k: v for k, v in st.items() if k not in ("values", "cuts", "spec")}
        if "cuts" in st:
            s["cuts_rows"] = len(st["cuts"])
        if "values" in st:
            s["chunk_rows"] = len(st["values"])
        steps.append(s)
    return {
        "run": trace.get("run"),
        "config": trace.get("config"),
        "objects": [
            {"name": o["name"], "spec": json.dumps(o["spec"], sort_keys=True)[:300]} for o in trace.get("objects", [])
        ],
        "datasets": [
            {k: (v if k != "values" else (f"{len(v)}x{len(v[0]) if v else 0}" if v else None)) for k, v in d.items()}
            for d in trace.get("datasets", [])
        ],
        "steps": steps,
        "n_steps": len(trace["steps"]),
    }
