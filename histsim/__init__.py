"""histsim — deterministic history simulation with fault injection for skchange.

See /verif/DESIGN.md.  Everything here runs against /repo's current working tree.
"""
