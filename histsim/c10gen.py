"""Seeded generator for C10 worlds and steps (swarm-style: everything varies per run)."""

import numpy as np

from histsim import core
from histsim.c10 import DATA_OPS, UNSPEC
from histsim.core import values_to_json

COST_CLASS = {
    "l2": "L2Cost",
    "gv": "GaussianVarCost",
    "gc": "GaussianCovCost",
    "ad": "AbsDevCost",
}


def arr(v):
    return {"__arr__": list(v), "dtype": "float64"}


def tup(*v):
    return {"__tuple__": list(v)}


def cost_param_menu(kind, p):
    """Fixed-parameter menu for a cost kind (JSON spec values)."""
    if kind in ("l2", "ad"):
        m = [0.0, 0.5, -1.0, 2.0]
        if p:
            m.append(arr([0.25 * (j + 1) for j in range(p)]))
        return m
    if kind == "gv":
        m = [tup(0.0, 1.0), tup(1.0, 2.0), tup(-0.5, 0.5)]
        if p:
            m.append(tup(arr([0.1 * j for j in range(p)]), arr([1.0 + j for j in range(p)])))
        return m
    if kind == "gc":
        m = [tup(0.0, 1.0), tup(0.5, 2.0)]
        if p:
            cov = (np.eye(p) * 1.5 + 0.25).tolist()
            m.append(tup(arr([0.0] * p), {"__arr__": cov, "dtype": "float64"}))
        return m
    raise ValueError(kind)


def cost_spec(kind, param):
    return {"__cls__": COST_CLASS[kind], "params": {"param": param}}


class Gen:
    def __init__(self, rng, tier):
        self.rng = rng
        self.tier = tier
        r = rng
        thorough = tier == "thorough"
        self.cfg = {
            "nsteps": int(r.integers(8, 151 if thorough else 61)),
            "nmax": 80 if thorough and r.random() < 0.3 else 40,
            "faults": [],
            "p_fault": float(r.uniform(0.05, 0.3)),
            "routes": ["clone", "setp"] if r.random() < (0.5 if thorough else 0.25) else [],
            "pristine": bool(r.random() < float(__import__("os").environ.get("VERIF_PRISTINE_P", 0.9 if thorough else 0.7))),
            "share": float(r.uniform(0.3, 0.95)),
        }
        if r.random() >= 0.4:
            kinds = [k for k in ("bad_data", "interrupt", "flaky") if r.random() < 0.7]
            self.cfg["faults"] = kinds or ["interrupt"]
        self.p0 = 1
        self.last_changer = None
        self.n_constructed = 0

    # ------------------------------------------------------------------ datasets
    def values(self, n, p, dtype):
        r = self.rng
        x = r.normal(size=(n, p))
        for _ in range(int(r.integers(0, 3))):
            a = int(r.integers(0, n))
            b = int(r.integers(a, n + 1))
            x[a:b] += r.normal(scale=4.0, size=p)
        if r.random() < 0.25 and n > 3:
            a = int(r.integers(0, n - 2))
            b = int(r.integers(a + 2, n + 1))
            j = int(r.integers(p))
            x[a:b, j] = x[a, j]
        if dtype == "int64":
            return np.round(x * 3).astype("int64")
        return np.round(x, 3)

    def datasets(self):
        r = self.rng
        out = []
        nfam = int(r.integers(1, 4))
        did = 0
        for f in range(nfam):
            n = int(r.integers(4, self.cfg["nmax"] + 1))
            p = int(r.integers(1, 4))
            if f == 0:
                self.p0 = p
            conts = ["df", "df", "df", "ndarray"] + (["series", "series"] if p == 1 else [])
            container = conts[int(r.integers(len(conts)))]
            dtype = "int64" if r.random() < 0.2 else "float64"
            ik = [("range", 0), ("range", 0), ("range", int(r.integers(1, 50))), ("dt", 0), ("dt", int(r.integers(1, 9)))][int(r.integers(5))]
            cols = [f"v{j}" for j in range(p)] if r.random() < 0.7 else list(range(p))
            for t in range(int(r.integers(2, 4))):
                out.append(
                    {
                        "id": did,
                        "family": f,
                        "container": container,
                        "dtype": dtype,
                        "index": {"kind": ik[0], "start": ik[1]},
                        "columns": cols,
                        "values": values_to_json(self.values(n, p, dtype)),
                    }
                )
                did += 1
        if "bad_data" in self.cfg["faults"]:
            base = out[int(r.integers(len(out)))]
            nan = dict(base, id=did, bad="nan", dtype="float64", container="df" if base["container"] != "ndarray" else "ndarray")
            v = [list(row) for row in base["values"]]
            v[int(r.integers(len(v)))][int(r.integers(len(v[0])))] = None
            nan["values"] = v
            out.append(nan)
            did += 1
            base = out[int(r.integers(len(out) - 1))]
            out.append(dict(base, id=did, bad="short", values=[list(row) for row in base["values"][: int(r.integers(1, 3))]]))
            did += 1
            out.append({"id": did, "family": -1, "bad": "none", "container": "none", "values": None, "columns": [], "index": {"kind": "range", "start": 0}})
            did += 1
        return out

    # ------------------------------------------------------------------ objects
    def choice(self, seq):
        return seq[int(self.rng.integers(len(seq)))]

    def new_cost(self, kinds, fixed):
        r = self.rng
        kind = self.choice(kinds)
        if fixed:
            menu = cost_param_menu(kind, self.p0 if r.random() < 0.15 else 0)
            return kind, cost_spec(kind, self.choice(menu))
        return kind, cost_spec(kind, None)

    def world(self):
        r = self.rng
        ds = self.datasets()
        objects = []
        pool = []  # (name, category, kind)

        def add(name, spec, cat, kind=None):
            objects.append({"name": name, "spec": spec})
            pool.append((name, cat, kind))

        # shared scorer pool
        for k in range(int(r.integers(1, 6))):
            c = r.random()
            name = f"s{k}"
            if c < 0.3:
                kind, sp = self.new_cost(["l2", "l2", "gv", "gc", "ad"], fixed=False)
                add(name, sp, "cost_opt", kind)
            elif c < 0.55:
                kind, sp = self.new_cost(["l2", "l2", "gv", "gc", "ad"], fixed=True)
                add(name, sp, "cost_fix", kind)
            elif c < 0.62:
                add(name, {"__cls__": "CUSUM", "params": {}}, "change_score")
            elif c < 0.68:
                add(name, {"__cls__": "L2Saving", "params": {}}, "saving", "l2")
            else:
                # composite over a pooled cost (shared below the adapter) or a private one
                comp = self.choice(["ChangeScore", "Saving", "LocalAnomalyScore"])
                need_fixed = comp == "Saving"
                cands = [n for n, cat, _ in pool if cat == "cost_fix" or (cat == "cost_opt" and not need_fixed)]
                if cands and r.random() < self.cfg["share"]:
                    ref = self.choice(cands)
                    inner = {"__ref__": ref}
                    kind = [kk for n, _, kk in pool if n == ref][0]
                else:
                    kind, inner = self.new_cost(["l2", "gv", "ad", "gc"], fixed=need_fixed)
                pname = "baseline_cost" if comp == "Saving" else "cost"
                cat = {"ChangeScore": "change_score", "Saving": "saving", "LocalAnomalyScore": "local"}[comp]
                add(name, {"__cls__": comp, "params": {pname: inner}}, cat, kind)

        def pick(cats, kinds=None, fixed=None, private_kinds=("l2",)):
            cands = [n for n, cat, kk in pool if cat in cats and (kinds is None or kk in kinds or kk is None)]
            if cands and r.random() < self.cfg["share"]:
                return {"__ref__": self.choice(cands)}
            if r.random() < 0.15:
                return None  # detector default
            _, sp = self.new_cost(list(private_kinds), fixed=bool(fixed))
            return sp

        dets = []
        for k in range(int(r.integers(1, 6))):
            dets.append(self.detector_spec(pick, [n for n, _ in dets]))
        for k, (name, spec) in enumerate(dets):
            objects.append({"name": name, "spec": spec})
        return {"datasets": ds, "objects": objects}

    def detector_spec(self, pick, existing):
        r = self.rng
        kind = self.choice(["PELT", "PELT", "MovingWindow", "MovingWindow", "SeededBinarySegmentation", "SeededBinarySegmentation", "CircularBinarySegmentation", "CAPA", "CAPA", "MVCAPA", "MVCAPA", "StatThresholdAnomaliser"])
        name = f"d{len(existing)}"
        T = lambda: self.choice([None, 0.3, 1.0, 2.0])  # noqa: E731
        if kind == "PELT":
            sp = {"cost": pick(["cost_opt", "cost_fix"], private_kinds=("l2", "gv", "ad")), "penalty_scale": self.choice([0.0, 0.5, 2.0]), "min_segment_length": int(r.integers(1, 4))}
        elif kind == "MovingWindow":
            sp = {"change_score": pick(["cost_opt", "cost_fix", "change_score"], private_kinds=("l2", "gv")), "bandwidth": int(r.integers(2, 6)), "threshold_scale": T(), "level": self.choice([0.01, 0.2]), "min_detection_interval": 1}
        elif kind == "SeededBinarySegmentation":
            sp = {"change_score": pick(["cost_opt", "cost_fix", "change_score"], private_kinds=("l2", "gv")), "threshold_scale": T(), "level": self.choice([1e-8, 0.1]), "min_segment_length": int(r.integers(1, 4)), "max_interval_length": int(r.integers(8, 25)), "growth_factor": self.choice([1.5, 2.0, 1.2])}
        elif kind == "CircularBinarySegmentation":
            sp = {"anomaly_score": pick(["cost_opt", "cost_fix", "local"], private_kinds=("l2", "gv")), "threshold_scale": T(), "level": self.choice([1e-8, 0.1]), "min_segment_length": int(r.integers(2, 4)), "max_interval_length": int(r.integers(8, 11)), "growth_factor": self.choice([1.5, 2.0])}
        elif kind in ("CAPA", "MVCAPA"):
            uni = ("l2", "gv", "ad") if kind == "MVCAPA" else ("l2", "gv", "ad", "gc")
            sp = {
                "collective_saving": pick(["cost_fix", "saving"], kinds=uni, fixed=True, private_kinds=("l2", "gv")),
                "point_saving": pick(["cost_fix", "saving"], kinds=("l2", "ad"), fixed=True, private_kinds=("l2",)),
                "collective_penalty_scale": self.choice([0.5, 2.0]),
                "point_penalty_scale": self.choice([0.5, 2.0]),
                "min_segment_length": int(r.integers(2, 4)),
                "max_segment_length": int(r.integers(4, 16)),
                "ignore_point_anomalies": bool(r.random() < 0.5),
            }
            if kind == "MVCAPA":
                sp["collective_penalty"] = self.choice(["combined", "dense", "sparse", {"__fn__": "pen_flat"}, {"__fn__": "pen_steps"}])
                sp["point_penalty"] = self.choice(["sparse", "dense", {"__fn__": "pen_flat"}])
        else:
            cands = [n for n in existing]
            inner = None
            if cands and r.random() < self.cfg["share"]:
                inner = {"__ref__": self.choice(cands)}
            else:
                c = r.random()
                if c < 0.3:
                    inner = {"__cls__": "ScriptedDetector", "params": {"cpts": tup(*sorted(int(v) for v in r.integers(1, 30, size=int(r.integers(0, 5)))))}}
                elif c < 0.65:
                    inner = {"__cls__": "MovingWindow", "params": {"change_score": pick(["cost_opt", "change_score"]), "bandwidth": int(r.integers(2, 5)), "threshold_scale": T(), "level": 0.2, "min_detection_interval": 1}}
                else:
                    inner = {"__cls__": "PELT", "params": {"cost": pick(["cost_opt"]), "penalty_scale": self.choice([0.3, 1.0]), "min_segment_length": int(r.integers(1, 3))}}
            sp = {"change_detector": inner, "stat": {"__fn__": self.choice(["np.mean", "np.median", "np.max", "stat_range"])}, "stat_lower": self.choice([-1.0, 0.0, -0.5]), "stat_upper": self.choice([0.5, 1.0, 2.0])}
        return name, {"__cls__": kind, "params": sp}

    # ------------------------------------------------------------------ steps
    OWN_MENU = {
        "PELT": [("penalty_scale", [0.0, 0.5, 2.0, 3.0, -1.0]), ("min_segment_length", [1, 2, 3, 0])],
        "MovingWindow": [("bandwidth", [2, 3, 5, 0]), ("threshold_scale", [None, 0.5, 1.0, -2.0]), ("level", [0.01, 0.3])],
        "SeededBinarySegmentation": [("min_segment_length", [1, 2, 3]), ("threshold_scale", [None, 0.5, 1.0]), ("max_interval_length", [6, 12, 20, 1]), ("growth_factor", [1.5, 2.0, 2.5])],
        "CircularBinarySegmentation": [("min_segment_length", [2, 3]), ("threshold_scale", [None, 0.5, 1.0]), ("max_interval_length", [8, 10])],
        "CAPA": [("max_segment_length", [4, 9, 15, 1]), ("collective_penalty_scale", [0.5, 2.0, -1.0]), ("ignore_point_anomalies", [True, False]), ("min_segment_length", [2, 3])],
        "MVCAPA": [("max_segment_length", [4, 9, 15]), ("collective_penalty_scale", [0.5, 2.0]), ("collective_penalty", ["dense", "sparse", "combined", {"__fn__": "pen_flat"}]), ("ignore_point_anomalies", [True, False])],
        "StatThresholdAnomaliser": [("stat_lower", [-2.0, -1.0, 0.0]), ("stat_upper", [1.0, 2.0, 0.5]), ("stat", [{"__fn__": "np.mean"}, {"__fn__": "np.median"}])],
        "ScriptedDetector": [("cpts", [tup(), tup(2, 5), tup(1, 2, 3)])],
    }
    KIND_OF = {v: k for k, v in COST_CLASS.items()}

    def set_params_step(self, sim, i):
        r = self.rng
        cl = sim.clients[i]
        # collect candidate paths: own numeric, nested cost params
        paths = []
        own = self.OWN_MENU.get(cl.kind, [])
        for name, vals in own:
            paths.append((name, vals))

        def walk(o, prefix, depth):
            if depth > 3:
                return
            try:
                params = o.get_params(deep=False)
            except Exception:  # noqa: BLE001
                return
            for k, v in params.items():
                if hasattr(v, "get_params") and not isinstance(v, type):
                    walk(v, prefix + k + "__", depth + 1)
            cn = type(o).__name__
            if cn in self.KIND_OF:
                kind = self.KIND_OF[cn]
                menu = cost_param_menu(kind, self.p0 if r.random() < 0.2 else 0)
                cur_is_none = params.get("param") is None
                # mostly keep the mode (optimal stays optimal only by explicit None)
                vals = list(menu) + ([None] if (cur_is_none or r.random() < 0.2) else [])
                paths.append((prefix + "param", vals))
            elif prefix and cn in self.OWN_MENU:
                for name, vals in self.OWN_MENU[cn]:
                    paths.append((prefix + name, vals))

        walk(cl.obj, "", 0)
        if not paths:
            return None
        nested = [p for p in paths if "__" in p[0] or (not cl.is_det and p[0] == "param")]
        if nested and r.random() < 0.7:
            path, vals = self.choice(nested)
        else:
            path, vals = self.choice(paths)
        return {"op": "set_params", "c": i, "path": path, "value": self.choice(vals)}

    def cuts(self, sim, cl):
        r = self.rng
        obj = cl.obj
        k = getattr(obj, "expected_cut_entries", 2)
        n = 10
        if isinstance(cl.lin, list) and hasattr(cl.lin[0][0], "__len__"):
            n = max(1, len(cl.lin[0][0]))
        try:
            ms = obj.min_size or 1
        except Exception:  # noqa: BLE001
            ms = 1
        rows = []
        bad = False
        for _ in range(int(r.integers(1, 7))):
            gaps = [ms + int(r.integers(0, max(1, n // k))) for _ in range(k - 1)]
            tot = sum(gaps)
            if tot > n:
                gaps = [ms] * (k - 1)
                tot = sum(gaps)
            s = int(r.integers(0, max(1, n - tot + 1)))
            row = [s]
            for g in gaps:
                row.append(row[-1] + g)
            rows.append(row)
        st = {"cuts": rows}
        c = r.random()
        if c < 0.12:
            bad = True
            m = int(r.integers(5))
            j = int(r.integers(len(rows)))
            if m == 0:
                rows[j][-1] = n + int(r.integers(1, 4))
            elif m == 1:
                rows[j] = list(reversed(rows[j]))
            elif m == 2:
                st["cuts_dtype"] = "float64"
            elif m == 3:
                st["cuts"] = [row[:-1] for row in rows]
            else:
                rows[j][0] = -int(r.integers(1, 3))
        if len(rows) == 1 and r.random() < 0.5:
            st["cuts_1d"] = True
        if bad:
            st["bad_cuts"] = True
        return st

    def pick_dataset(self, sim, cl, allow_bad):
        r = self.rng
        good = [d for d in sim.trace["datasets"] if not d.get("bad")]
        bad = [d for d in sim.trace["datasets"] if d.get("bad")]
        if allow_bad and bad and r.random() < 0.07:
            return self.choice(bad)["id"]
        if cl.last_ds is not None:
            fam = sim.ds_spec[cl.last_ds].get("family")
            twins = [d for d in good if d["family"] == fam and d["id"] != cl.last_ds]
            c = r.random()
            if twins and c < 0.45:
                return self.choice(twins)["id"]
            if c < 0.6:
                return cl.last_ds
        return self.choice(good)["id"]

    def step(self, sim):
        r = self.rng
        ncl = len(sim.clients)
        # who moves: prefer a client sharing state with the last state changer
        i = None
        if self.last_changer is not None and self.last_changer < ncl and r.random() < 0.45:
            sh = sim.sharers(self.last_changer)
            if sh and r.random() < 0.75:
                i = self.choice(sh)
            else:
                i = self.last_changer
        if i is None:
            i = int(r.integers(ncl))
        cl = sim.clients[i]
        fitted = isinstance(cl.lin, list)
        if cl.is_det:
            if fitted:
                ops = [("predict", 25), ("transform", 14), ("transform_scores", 14), ("fit", 14), ("update", 9), ("update_predict", 2), ("fit_predict", 3), ("fit_transform", 2), ("set_params", 8), ("clone", 3), ("reset", 2), ("construct", 1)]
            elif cl.lin == UNSPEC:
                ops = [("fit", 55), ("predict", 12), ("transform_scores", 5), ("update", 4), ("set_params", 8), ("clone", 3), ("reset", 4), ("fit_predict", 5)]
            else:
                ops = [("fit", 64), ("predict", 5), ("update", 2), ("set_params", 12), ("clone", 3), ("fit_predict", 6), ("fit_transform", 3), ("construct", 1), ("reset", 1)]
        else:
            if fitted and not cl.amb and not cl.stale:
                ops = [("evaluate", 62), ("fit", 18), ("set_params", 8), ("clone", 2), ("reset", 2)]
            else:
                ops = [("fit", 62), ("evaluate", 14), ("set_params", 12), ("clone", 3), ("reset", 2)]
        names = [o for o, _ in ops]
        w = np.array([x for _, x in ops], dtype=float)
        op = names[int(r.choice(len(names), p=w / w.sum()))]
        st = None
        if op == "set_params":
            st = self.set_params_step(sim, i)
            if st is None:
                op = "fit"
        if op in ("clone", "reset"):
            st = {"op": op, "c": i}
        elif op == "construct":
            existing = [c.name for c in sim.clients if c.is_det]
            pool = []
            for c in sim.clients:
                if not c.is_det:
                    pool.append(c.name)

            def pick(cats, kinds=None, fixed=None, private_kinds=("l2",)):
                _, sp = self.new_cost(list(private_kinds), fixed=bool(fixed))
                return sp

            name, spec = self.detector_spec(pick, existing)
            self.n_constructed += 1
            st = {"op": "construct", "name": f"n{self.n_constructed}", "spec": spec}
        elif op == "evaluate":
            st = {"op": "evaluate", "c": i}
            st.update(self.cuts(sim, cl))
        elif op in ("update", "update_predict"):
            like = cl.lin[0][1] if fitted and cl.lin[0][1] is not None else self.choice([d for d in sim.trace["datasets"] if not d.get("bad")])["id"]
            spec = sim.ds_spec[like]
            m = int(r.integers(1, 9))
            st = {"op": op, "c": i, "like": like, "values": values_to_json(self.values(m, len(spec["columns"]), spec.get("dtype", "float64")))}
        elif st is None:
            st = {"op": op, "c": i, "d": self.pick_dataset(sim, cl, "bad_data" in self.cfg["faults"])}
        # faults inside calls
        if st["op"] in DATA_OPS + ("update", "evaluate") and r.random() < self.cfg["p_fault"]:
            kinds = [k for k in self.cfg["faults"] if k in ("interrupt", "flaky")]
            if kinds:
                fk = self.choice(kinds)
                frac = float(r.random())
                arg, _, _, _ = sim.materialise_arg(st, cl)
                L, counts = sim.dry_run(i, st["op"], arg)
                if fk == "flaky" and counts:
                    site = sorted(counts)[int(r.integers(len(counts)))]
                    st["fault"] = {"kind": "flaky", "site": site, "at": 1 + int(frac * counts[site])}
                elif L > 0:
                    st["fault"] = {"kind": "interrupt", "at": 1 + int(frac * L)}
        if st["op"] in ("fit", "update", "update_predict", "fit_predict", "fit_transform", "set_params", "clone", "reset"):
            self.last_changer = st.get("c")
        return st


# --------------------------------------------------------------------------------------
# property interface used by the runner
# --------------------------------------------------------------------------------------
def _result(sim, trace):
    return {
        "trace": trace,
        "violations": sim.violations,
        "stats": sim.stats,
        "digest": sim.event_digest(),
        "signature": core.digest(sim.sig),
        "nontrivial": bool(sim.nontrivial),
        "sig_list": sim.sig,
        "build_failures": sim.build_failures,
    }


def run_one(seed, idx, tier, pristine=None):
    from histsim.c10 import Sim

    rng = core.make_rng(seed, "C10", idx)
    g = Gen(rng, tier)
    w = g.world()
    trace = {
        "property": "C10",
        "seed": int(seed),
        "run": int(idx),
        "tier": tier,
        "config": g.cfg,
        "datasets": w["datasets"],
        "objects": w["objects"],
        "steps": [],
    }
    sim = Sim(trace, pristine)
    if not sim.clients:
        return _result(sim, trace)
    for _ in range(g.cfg["nsteps"]):
        st = g.step(sim)
        trace["steps"].append(st)
        sim.execute(st)
        if sim.violations:
            break
    sim.finish()
    return _result(sim, trace)


def replay(trace, pristine=None):
    from histsim.c10 import Sim

    sim = Sim(trace, pristine)
    for st in trace["steps"]:
        sim.execute(st)
        if sim.violations:
            break
    sim.finish()
    return _result(sim, trace)


from histsim.c10 import pristine_handler as PRISTINE_HANDLER  # noqa: E402,F401

TIERS = {"quick": {"runs": 1600, "guard": 180}, "thorough": {"runs": 16000, "guard": 600}}

RULE = (
    "One case = one seeded history: a world of 2-10 clients (detectors and scorers, sharing scorer instances "
    "per a seeded sharing graph) over a seeded dataset pool with same-shape twins, driven for 8-60 (thorough: "
    "-150) public calls chosen by a biased seeded scheduler, with seeded faults (bad data, singular slices, "
    "interrupts at a skchange source line, failing stub peers, bad cuts). Every output call on a client in a "
    "specified state is compared with a brand-new twin built from the client's current hyper-parameters and "
    "fitted on its training lineage. A history is non-trivial if it contains at least one compared output of a "
    "fitted client (i.e. preceded by state-changing calls on that object); distinct = distinct sequence of "
    "(client class, operation, dataset relation same/twin/other/bad/chunk/cuts, fired fault kind)."
)

ASSUMPTIONS = [
    "public calls are atomic: no pre-emption inside a call (the library is synchronous and single-threaded)",
    "a failed or interrupted fit/update leaves the client unspecified until its next successful fit (relaxation 1)",
    "direct evaluate on a scorer that another client refitted on other data is not compared (relaxation 2)",
    "hyper-parameter changes take effect at the next fit (relaxation 3)",
    "update is compared only for chunks whose index continues the training index (relaxation 4)",
    "numba is absent: the pure-Python fallbacks of skchange run, every source line is a possible crash point",
    "exceptions are compared by type only",
    "sampling, not enumeration: a clean batch is evidence, not proof",
]
