"""Seeded generator for C10 worlds and steps (swarm-style: everything varies per run)."""

import numpy as np

from histsim import core
from histsim.c10 import DATA_OPS, UNSPEC
from histsim.core import values_to_json

COST_CLASS = {
    "l2": "L2Cost",
    "gv": "GaussianVarCost",
    "gc": "GaussianCovCost",
    "ad": "AbsDevCost",
}


def arr(v):
    return {"__arr__": list(v), "dtype": "float64"}


def tup(*v):
    return {"__tuple__": list(v)}


def cost_param_menu(kind, p):
    """Fixed-parameter menu for a cost kind (JSON spec values)."""
    if kind in ("l2", "ad"):
        m = [0.0, 0.5, -1.0, 2.0]
        if p:
            m.append(arr([0.25 * (j + 1) for j in range(p)]))
        return m
    if kind == "gv":
        m = [tup(0.0, 1.0), tup(1.0, 2.0), tup(-0.5, 0.5)]
        if p:
            m.append(tup(arr([0.1 * j for j in range(p)]), arr([1.0 + j for j in range(p)])))
        return m
    if kind == "gc":
        m = [tup(0.0, 1.0), tup(0.5, 2.0)]
        if p:
            cov = (np.eye(p) * 1.5 + 0.25).tolist()
            m.append(tup(arr([0.0] * p), {"__arr__": cov, "dtype": "float64"}))
        return m
    raise ValueError(kind)


def cost_spec(kind, param):
    return {"__cls__": COST_CLASS[kind], "params": {"param": param}}


class Gen:
    def __init__(self, rng, tier):
        self.rng = rng
        self.tier = tier
        r = rng
        thorough = tier == "thorough"
        self.cfg = {
            "nsteps": int(r.integers(8, 151 if thorough else 61)),
            "nmax": 80 if r.random() < (0.3 if thorough else 0.12) else 40,
            "long": bool(r.random() < 0.5),
            "faults": [],
            "p_fault": float(r.uniform(0.05, 0.3)),
            "routes": ["clone", "setp"] if r.random() < (0.5 if thorough else 0.25) else [],
            "pristine": bool(r.random() < float(__import__("os").environ.get("VERIF_PRISTINE_P", 0.9 if thorough else 0.7))),
            "share": float(r.uniform(0.3, 0.95)),
        }
        if r.random() >= 0.4:
            kinds = [k for k in ("bad_data", "interrupt", "flaky") if r.random() < 0.7]
            self.cfg["faults"] = kinds or ["interrupt"]
        self.p0 = 1
        self.after_mutate = None
        self.follow = None
        self.last_changer = None
        self.n_constructed = 0

    # ------------------------------------------------------------------ datasets
    def values(self, n, p, dtype):
        r = self.rng
        x = r.normal(size=(n, p))
        for _ in range(int(r.integers(0, 3))):
            a = int(r.integers(0, n))
            b = int(r.integers(a, n + 1))
            shift = r.normal(scale=4.0, size=p)
            if p > 1 and r.random() < 0.5:
                # a sparse change: only some of the columns move
                keep = r.random(p) < 0.5
                keep[int(r.integers(p))] = True
                shift = shift * keep
            x[a:b] += shift
        if r.random() < 0.25 and n > 3:
            a = int(r.integers(0, n - 2))
            b = int(r.integers(a + 2, n + 1))
            j = int(r.integers(p))
            x[a:b, j] = x[a, j]
        if dtype == "int64":
            return np.round(x * 3).astype("int64")
        return np.round(x, 3)

    def datasets(self):
        r = self.rng
        out = []
        nfam = int(r.integers(1, 4))
        did = 0
        for f in range(nfam):
            n = int(r.integers(4, self.cfg["nmax"] + 1))
            if self.cfg["nmax"] > 40 and self.cfg.get("long") and f == 0:
                n = int(r.integers(62, self.cfg["nmax"] + 1))
            p = int(r.integers(1, 4))
            if f == 0:
                self.p0 = p
            conts = ["df", "df", "df", "ndarray"] + (["series", "series"] if p == 1 else [])
            container = conts[int(r.integers(len(conts)))]
            dtype = "int64" if r.random() < 0.2 else "float64"
            ik = [("range", 0), ("range", 0), ("range", int(r.integers(1, 50))), ("dt", 0), ("dt", int(r.integers(1, 9)))][int(r.integers(5))]
            cols = [f"v{j}" for j in range(p)] if r.random() < 0.7 else list(range(p))
            prev_vals = None
            for t in range(int(r.integers(2, 4))):
                vals = self.values(n, p, dtype)
                if prev_vals is not None and n >= 8 and r.random() < 0.35:
                    # near twin: the sibling with only a middle stretch changed (same
                    # head and tail rows) - what a lossy data fingerprint confuses
                    vals = prev_vals.copy()
                    a = int(r.integers(n // 4, n // 2))
                    b = int(r.integers(a + 1, max(a + 2, 3 * n // 4)))
                    shift = r.normal(scale=4.0, size=p)
                    vals[a:b] = vals[a:b] + (np.round(shift * 3).astype("int64") if dtype == "int64" else np.round(shift, 3))
                if prev_vals is not None and t >= 1 and r.random() < 0.25:
                    # a grown series: the sibling's rows followed by a few new ones
                    extra = self.values(int(r.integers(2, 9)), p, dtype)
                    vals = np.concatenate((prev_vals, extra))
                else:
                    prev_vals = vals
                out.append(
                    {
                        "id": did,
                        "family": f,
                        "container": container,
                        "dtype": dtype,
                        "index": {"kind": ik[0], "start": ik[1]},
                        "columns": cols,
                        "values": values_to_json(vals),
                    }
                )
                did += 1
        if "bad_data" in self.cfg["faults"]:
            base = out[int(r.integers(len(out)))]
            nan = dict(base, id=did, bad="nan", dtype="float64", container="df" if base["container"] != "ndarray" else "ndarray")
            v = [list(row) for row in base["values"]]
            v[int(r.integers(len(v)))][int(r.integers(len(v[0])))] = None
            nan["values"] = v
            out.append(nan)
            did += 1
            base = out[int(r.integers(len(out) - 1))]
            out.append(dict(base, id=did, bad="short", values=[list(row) for row in base["values"][: int(r.integers(1, 3))]]))
            did += 1
            out.append({"id": did, "family": -1, "bad": "none", "container": "none", "values": None, "columns": [], "index": {"kind": "range", "start": 0}})
            did += 1
        return out

    # ------------------------------------------------------------------ objects
    def choice(self, seq):
        return seq[int(self.rng.integers(len(seq)))]

    def new_cost(self, kinds, fixed):
        r = self.rng
        kind = self.choice(kinds)
        if fixed:
            menu = cost_param_menu(kind, self.p0 if r.random() < 0.15 else 0)
            return kind, cost_spec(kind, self.choice(menu))
        return kind, cost_spec(kind, None)

    def world(self):
        r = self.rng
        ds = self.datasets()
        objects = []
        pool = []  # (name, category, kind)

        def add(name, spec, cat, kind=None):
            objects.append({"name": name, "spec": spec})
            pool.append((name, cat, kind))

        # shared scorer pool
        for k in range(int(r.integers(1, 6))):
            c = r.random()
            name = f"s{k}"
            if c < 0.3:
                kind, sp = self.new_cost(["l2", "l2", "gv", "gc", "ad"], fixed=False)
                add(name, sp, "cost_opt", kind)
            elif c < 0.55:
                kind, sp = self.new_cost(["l2", "l2", "gv", "gc", "ad"], fixed=True)
                add(name, sp, "cost_fix", kind)
            elif c < 0.62:
                add(name, {"__cls__": "CUSUM", "params": {}}, "change_score")
            elif c < 0.68:
                add(name, {"__cls__": "L2Saving", "params": {}}, "saving", "l2")
            else:
                # composite over a pooled cost (shared below the adapter) or a private one
                comp = self.choice(["ChangeScore", "Saving", "LocalAnomalyScore"])
                need_fixed = comp == "Saving"
                cands = [n for n, cat, _ in pool if cat == "cost_fix" or (cat == "cost_opt" and not need_fixed)]
                if cands and r.random() < self.cfg["share"]:
                    ref = self.choice(cands)
                    inner = {"__ref__": ref}
                    kind = [kk for n, _, kk in pool if n == ref][0]
                else:
                    kind, inner = self.new_cost(["l2", "gv", "ad", "gc"], fixed=need_fixed)
                pname = "baseline_cost" if comp == "Saving" else "cost"
                cat = {"ChangeScore": "change_score", "Saving": "saving", "LocalAnomalyScore": "local"}[comp]
                add(name, {"__cls__": comp, "params": {pname: inner}}, cat, kind)

        def pick(cats, kinds=None, fixed=None, private_kinds=("l2",)):
            cands = [n for n, cat, kk in pool if cat in cats and (kinds is None or kk in kinds or kk is None)]
            if cands and r.random() < self.cfg["share"]:
                return {"__ref__": self.choice(cands)}
            if r.random() < 0.15:
                return None  # detector default
            _, sp = self.new_cost(list(private_kinds), fixed=bool(fixed))
            return sp

        dets = []
        for k in range(int(r.integers(1, 6))):
            dets.append(self.detector_spec(pick, [n for n, _ in dets]))
        for k, (name, spec) in enumerate(dets):
            objects.append({"name": name, "spec": spec})
        return {"datasets": ds, "objects": objects}

    def detector_spec(self, pick, existing):
        r = self.rng
        kind = self.choice(["PELT", "PELT", "MovingWindow", "MovingWindow", "SeededBinarySegmentation", "SeededBinarySegmentation", "CircularBinarySegmentation", "CAPA", "CAPA", "MVCAPA", "MVCAPA", "StatThresholdAnomaliser"])
        name = f"d{len(existing)}"
        T = lambda: self.choice([None, 0.3, 1.0, 2.0])  # noqa: E731
        if kind == "PELT":
            sp = {"cost": pick(["cost_opt", "cost_fix"], private_kinds=("l2", "gv", "ad")), "penalty_scale": self.choice([0.0, 0.5, 2.0]), "min_segment_length": int(r.integers(1, 4))}
        elif kind == "MovingWindow":
            bw = int(r.integers(2, 9))
            mdi = int(r.integers(1, max(1, bw // 2 - 1) + 1))
            sp = {"change_score": pick(["cost_opt", "cost_fix", "change_score"], private_kinds=("l2", "gv")), "bandwidth": bw, "threshold_scale": T(), "level": self.choice([0.01, 0.2]), "min_detection_interval": mdi}
        elif kind == "SeededBinarySegmentation":
            sp = {"change_score": pick(["cost_opt", "cost_fix", "change_score"], private_kinds=("l2", "gv")), "threshold_scale": T(), "level": self.choice([1e-8, 0.1]), "min_segment_length": int(r.integers(1, 4)), "max_interval_length": int(r.integers(8, 25)), "growth_factor": self.choice([1.5, 2.0, 1.2])}
        elif kind == "CircularBinarySegmentation":
            sp = {"anomaly_score": pick(["cost_opt", "cost_fix", "local"], private_kinds=("l2", "gv")), "threshold_scale": T(), "level": self.choice([1e-8, 0.1]), "min_segment_length": int(r.integers(2, 4)), "max_interval_length": int(r.integers(8, 11)), "growth_factor": self.choice([1.5, 2.0])}
        elif kind in ("CAPA", "MVCAPA"):
            uni = ("l2", "gv", "ad") if kind == "MVCAPA" else ("l2", "gv", "ad", "gc")
            sp = {
                "collective_saving": pick(["cost_fix", "saving"], kinds=uni, fixed=True, private_kinds=("l2", "gv")),
                "point_saving": pick(["cost_fix", "saving"], kinds=("l2", "ad"), fixed=True, private_kinds=("l2",)),
                "collective_penalty_scale": self.choice([0.5, 2.0]),
                "point_penalty_scale": self.choice([0.5, 2.0]),
                "min_segment_length": int(r.integers(2, 4)),
                "max_segment_length": int(r.integers(4, 16)),
                "ignore_point_anomalies": bool(r.random() < 0.5),
            }
            if kind == "MVCAPA":
                sp["collective_penalty"] = self.choice(["combined", "combined", "combined", "dense", "sparse", "intermediate", {"__fn__": "pen_flat"}, {"__fn__": "pen_steps"}])
                sp["point_penalty"] = self.choice(["sparse", "dense", {"__fn__": "pen_flat"}])
        else:
            cands = [n for n in existing]
            inner = None
            if cands and r.random() < self.cfg["share"]:
                inner = {"__ref__": self.choice(cands)}
            else:
                c = r.random()
                if c < 0.3:
                    inner = {"__cls__": self.choice(["ScriptedDetector", "ScriptedDetectorNoFit"]), "params": {"cpts": tup(*sorted(int(v) for v in r.integers(1, 30, size=int(r.integers(0, 5)))))}}
                elif c < 0.65:
                    inner = {"__cls__": "MovingWindow", "params": {"change_score": pick(["cost_opt", "change_score"]), "bandwidth": int(r.integers(2, 5)), "threshold_scale": T(), "level": 0.2, "min_detection_interval": 1}}
                else:
                    inner = {"__cls__": "PELT", "params": {"cost": pick(["cost_opt"]), "penalty_scale": self.choice([0.3, 1.0]), "min_segment_length": int(r.integers(1, 3))}}
            sp = {"change_detector": inner, "stat": {"__fn__": self.choice(["np.mean", "np.median", "np.max", "stat_range"])}, "stat_lower": self.choice([-1.0, 0.0, -0.5]), "stat_upper": self.choice([0.5, 1.0, 2.0])}
        return name, {"__cls__": kind, "params": sp}

    # ------------------------------------------------------------------ steps
    OWN_MENU = {
        "PELT": [("penalty_scale", [0.0, 0.5, 2.0, 3.0, -1.0]), ("min_segment_length", [1, 2, 3, 0])],
        "MovingWindow": [("bandwidth", [2, 3, 5, 8, 0]), ("threshold_scale", [None, 0.5, 1.0, -2.0]), ("level", [0.01, 0.3]), ("min_detection_interval", [1, 1, 2, 3])],
        "SeededBinarySegmentation": [("min_segment_length", [1, 2, 3]), ("threshold_scale", [None, 0.5, 1.0]), ("max_interval_length", [6, 12, 20, 1]), ("growth_factor", [1.5, 2.0, 2.5])],
        "CircularBinarySegmentation": [("min_segment_length", [2, 3]), ("threshold_scale", [None, 0.5, 1.0]), ("max_interval_length", [8, 10])],
        "CAPA": [("max_segment_length", [4, 9, 15, 1]), ("collective_penalty_scale", [0.5, 2.0, -1.0]), ("ignore_point_anomalies", [True, False]), ("min_segment_length", [2, 3])],
        "MVCAPA": [("max_segment_length", [4, 9, 15]), ("collective_penalty_scale", [0.5, 2.0]), ("collective_penalty", ["dense", "sparse", "combined", {"__fn__": "pen_flat"}]), ("ignore_point_anomalies", [True, False])],
        "StatThresholdAnomaliser": [("stat_lower", [-2.0, -1.0, 0.0]), ("stat_upper", [1.0, 2.0, 0.5]), ("stat", [{"__fn__": "np.mean"}, {"__fn__": "np.median"}])],
        "ScriptedDetector": [("cpts", [tup(), tup(2, 5), tup(1, 2, 3)])],
        "ScriptedDetectorNoFit": [("cpts", [tup(), tup(2, 5), tup(1, 2, 3)])],
    }
    KIND_OF = {v: k for k, v in COST_CLASS.items()}

    SCORER_SLOTS = {
        "PELT": [("cost", ("cost_opt", "cost_fix"), None)],
        "MovingWindow": [("change_score", ("cost_opt", "cost_fix", "change_score"), None)],
        "SeededBinarySegmentation": [("change_score", ("cost_opt", "cost_fix", "change_score"), None)],
        "CircularBinarySegmentation": [("anomaly_score", ("cost_opt", "cost_fix", "local"), None)],
        "CAPA": [("collective_saving", ("cost_fix", "saving"), None), ("point_saving", ("cost_fix", "saving"), ("l2", "ad"))],
        "MVCAPA": [("collective_saving", ("cost_fix", "saving"), ("l2", "gv", "ad")), ("point_saving", ("cost_fix", "saving"), ("l2", "ad"))],
    }

    def category_of(self, obj):
        cn = type(obj).__name__
        try:
            if cn in self.KIND_OF:
                return ("cost_fix" if obj.param is not None else "cost_opt", self.KIND_OF[cn])
            if cn in ("CUSUM", "ChangeScore"):
                return ("change_score", None)
            if cn == "L2Saving":
                return ("saving", "l2")
            if cn == "Saving":
                return ("saving", self.KIND_OF.get(type(obj.baseline_cost).__name__))
            if cn == "LocalAnomalyScore":
                return ("local", None)
        except Exception:  # noqa: BLE001
            pass
        return (None, None)

    def swap_scorer_step(self, sim, i):
        """set_params that replaces a detector's scorer object: by a scorer another
        client holds (sharing changes during the history) or by a new private one."""
        r = self.rng
        cl = sim.clients[i]
        slots = self.SCORER_SLOTS.get(cl.kind)
        if not slots:
            return None
        pname, cats, kinds = self.choice(slots)
        cands = []
        for c in sim.clients:
            if not c.is_det:
                cat, kind = self.category_of(c.obj)
                if cat in cats and (kinds is None or kind in kinds):
                    cands.append(c.name)
        if cands and r.random() < 0.7:
            return {"op": "set_params", "c": i, "path": pname, "value": {"__ref__": self.choice(cands)}}
        fixed = "cost_opt" not in cats
        _, sp = self.new_cost(list(kinds or ("l2", "gv")), fixed=fixed)
        return {"op": "set_params", "c": i, "path": pname, "value": sp}

    def set_params_step(self, sim, i):
        r = self.rng
        cl = sim.clients[i]
        if cl.is_det and r.random() < 0.12:
            st = self.swap_scorer_step(sim, i)
            if st is not None:
                return st
        # collect candidate paths: own numeric, nested cost params
        paths = []
        own = self.OWN_MENU.get(cl.kind, [])
        for name, vals in own:
            paths.append((name, vals))

        def walk(o, prefix, depth):
            if depth > 3:
                return
            try:
                params = o.get_params(deep=False)
            except Exception:  # noqa: BLE001
                return
            for k, v in params.items():
                if hasattr(v, "get_params") and not isinstance(v, type):
                    walk(v, prefix + k + "__", depth + 1)
            cn = type(o).__name__
            if cn in self.KIND_OF:
                kind = self.KIND_OF[cn]
                menu = cost_param_menu(kind, self.p0 if r.random() < 0.2 else 0)
                cur_is_none = params.get("param") is None
                # mostly keep the mode (optimal stays optimal only by explicit None)
                vals = list(menu) + ([None] if (cur_is_none or r.random() < 0.2) else [])
                paths.append((prefix + "param", vals))
            elif prefix and cn in self.OWN_MENU:
                for name, vals in self.OWN_MENU[cn]:
                    paths.append((prefix + name, vals))

        walk(cl.obj, "", 0)
        if not paths:
            return None
        nested = [p for p in paths if "__" in p[0] or (not cl.is_det and p[0] == "param")]
        if nested and r.random() < 0.5:
            path, vals = self.choice(nested)
        else:
            path, vals = self.choice(paths)
        return {"op": "set_params", "c": i, "path": path, "value": self.choice(vals)}

    def cuts(self, sim, cl, n=None):
        r = self.rng
        obj = cl.obj
        k = getattr(obj, "expected_cut_entries", 2)
        n0 = n
        n = 10
        if n0:
            n = n0
        elif isinstance(cl.lin, list) and hasattr(cl.lin[0][0], "__len__"):
            n = max(1, len(cl.lin[0][0]))
        try:
            ms = obj.min_size or 1
        except Exception:  # noqa: BLE001
            ms = 1
        rows = []
        bad = False
        for _ in range(int(r.integers(1, 7)) if r.random() < 0.8 else int(r.integers(5, 12))):
            gaps = [ms + int(r.integers(0, max(1, n // k))) for _ in range(k - 1)]
            tot = sum(gaps)
            if tot > n:
                gaps = [ms] * (k - 1)
                tot = sum(gaps)
            s = int(r.integers(0, max(1, n - tot + 1)))
            row = [s]
            for g in gaps:
                row.append(row[-1] + g)
            rows.append(row)
        # batches related to the previous batch of the same client: same rows in another
        # order, same first and last row with other rows in between, repeated rows
        prev = getattr(self, "_last_cuts", {}).get(cl.name)
        if prev and len(prev[0]) == k and r.random() < 0.35:
            m = int(r.integers(3))
            if m == 0:
                rows = [list(x) for x in prev]
                r.shuffle(rows)
            elif m == 1 and len(prev) >= 3:
                inner = rows[: max(1, len(prev) - 2)]
                while len(inner) < len(prev) - 2:
                    inner.append(list(inner[int(r.integers(len(inner)))]))
                rows = [list(prev[0])] + [list(x) for x in inner[: len(prev) - 2]] + [list(prev[-1])]
            else:
                rows = [list(x) for x in prev] + [list(prev[int(r.integers(len(prev)))])]
        if not hasattr(self, "_last_cuts"):
            self._last_cuts = {}
        self._last_cuts[cl.name] = [list(x) for x in rows]
        st = {"cuts": rows}
        c = r.random()
        if c < 0.12:
            bad = True
            m = int(r.integers(5))
            j = int(r.integers(len(rows)))
            if m == 0:
                rows[j][-1] = n + int(r.integers(1, 4))
            elif m == 1:
                rows[j] = list(reversed(rows[j]))
            elif m == 2:
                st["cuts_dtype"] = "float64"
            elif m == 3:
                st["cuts"] = [row[:-1] for row in rows]
            else:
                rows[j][0] = -int(r.integers(1, 3))
        if len(rows) == 1 and r.random() < 0.5:
            st["cuts_1d"] = True
        c2 = r.random()
        if c2 < 0.3:
            st["cuts_layout"] = self.choice(["view", "fortran", "readonly", "list"])
        elif c2 < 0.4 and "cuts_dtype" not in st:
            st["cuts_dtype"] = "int32"
        if bad:
            st["bad_cuts"] = True
        return st

    def pick_dataset(self, sim, cl, allow_bad):
        r = self.rng
        good = [d for d in sim.trace["datasets"] if not d.get("bad")]
        bad = [d for d in sim.trace["datasets"] if d.get("bad")]
        if allow_bad and bad and r.random() < 0.07:
            return self.choice(bad)["id"]
        if cl.last_ds is not None:
            fam = sim.ds_spec[cl.last_ds].get("family")
            twins = [d for d in good if d["family"] == fam and d["id"] != cl.last_ds]
            c = r.random()
            if twins and c < 0.45:
                return self.choice(twins)["id"]
            if c < 0.6:
                return cl.last_ds
        return self.choice(good)["id"]

    def step(self, sim):
        r = self.rng
        ncl = len(sim.clients)
        if self.after_mutate is not None:
            # right after the user overwrote a buffer in place: the clients trained on it
            # refit on the very same object (and are then compared as usual)
            d, todo = self.after_mutate
            todo = [j for j in todo if j < ncl]
            if todo and r.random() < 0.85:
                j = todo.pop(0)
                self.after_mutate = (d, todo) if todo else None
                self.last_changer = j
                if r.random() < 0.4:
                    # ... or are used on it without a refit (judged either way)
                    cj = sim.clients[j]
                    if cj.is_det:
                        return {"op": self.choice(["predict", "transform", "transform_scores"]), "c": j, "d": d}
                return {"op": "fit", "c": j, "d": d}
            self.after_mutate = None
        if self.follow is not None:
            # every way of fitting (fit, fit_predict, fit_transform, update) is followed,
            # half of the time, directly by an update or an output call on that client
            j, nxt = self.follow
            self.follow = None
            if j < ncl and isinstance(sim.clients[j].lin, list) and r.random() < 0.5:
                cl = sim.clients[j]
                if nxt == "update":
                    like = cl.lin[0][1] if cl.lin[0][1] is not None else None
                    if like is not None and not sim.ds_spec[like].get("bad") and sim.ds_spec[like]["container"] != "ndarray":
                        spec = sim.ds_spec[like]
                        m = int(r.integers(1, 9))
                        self.last_changer = j
                        st = {"op": "update", "c": j, "like": like, "values": values_to_json(self.values(m, len(spec["columns"]), spec.get("dtype", "float64")))}
                        if r.random() < 0.25:
                            st["overlap"] = int(r.integers(1, 6))
                        return st
                else:
                    return {"op": nxt, "c": j, "d": self.pick_dataset(sim, cl, False)}
        # who moves: prefer a client sharing state with the last state changer
        i = None
        if self.last_changer is not None and self.last_changer < ncl and r.random() < 0.45:
            sh = sim.sharers(self.last_changer)
            if sh and r.random() < 0.75:
                i = self.choice(sh)
            else:
                i = self.last_changer
        if i is None:
            i = int(r.integers(ncl))
        cl = sim.clients[i]
        fitted = isinstance(cl.lin, list)
        if r.random() < 0.025:
            # the user overwrites one of their data objects in place (reused buffer)
            used = [d for d in sim.trace["datasets"] if not d.get("bad")]
            fit_ds = [c.lin[0][1] for c in sim.clients if isinstance(c.lin, list) and c.lin[0][1] is not None and not sim.ds_spec[c.lin[0][1]].get("bad")]
            d = self.choice(fit_ds) if fit_ds and r.random() < 0.8 else self.choice(used)["id"]
            spec = sim.ds_spec[d]
            self.last_changer = None
            obj = sim.ds_obj[d]
            self.after_mutate = (d, [j for j, c in enumerate(sim.clients) if isinstance(c.lin, list) and any(ch is obj for ch, _ in c.lin)])
            return {"op": "mutate", "d": d, "values": values_to_json(self.values(len(spec["values"]), len(spec["columns"]), spec.get("dtype", "float64")))}
        if cl.is_det:
            if fitted:
                ops = [("predict", 25), ("transform", 14), ("transform_scores", 14), ("fit", 14), ("update", 9), ("update_predict", 2), ("fit_predict", 3), ("fit_transform", 2), ("set_params", 8), ("clone", 3), ("reset", 2), ("construct", 1), ("copy", 3)]
            elif cl.lin == UNSPEC:
                ops = [("fit", 55), ("predict", 12), ("transform_scores", 5), ("update", 4), ("set_params", 8), ("clone", 3), ("reset", 4), ("fit_predict", 5)]
            else:
                ops = [("fit", 64), ("predict", 5), ("update", 2), ("set_params", 12), ("clone", 3), ("fit_predict", 6), ("fit_transform", 3), ("construct", 1), ("reset", 1)]
        else:
            if fitted and not cl.amb and not cl.stale:
                ops = [("evaluate", 62), ("fit", 18), ("set_params", 8), ("clone", 2), ("reset", 2), ("copy", 3)]
            else:
                ops = [("fit", 62), ("evaluate", 14), ("set_params", 12), ("clone", 3), ("reset", 2)]
        names = [o for o, _ in ops]
        w = np.array([x for _, x in ops], dtype=float)
        op = names[int(r.choice(len(names), p=w / w.sum()))]
        st = None
        if op == "set_params":
            st = self.set_params_step(sim, i)
            if st is None:
                op = "fit"
        if op in ("clone", "reset"):
            st = {"op": op, "c": i}
        elif op == "copy":
            st = {"op": "copy", "c": i, "how": self.choice(["deepcopy", "pickle"])}
            self.follow = (i, self.choice(["update", "predict", "transform_scores"])) if cl.is_det else None
        elif op == "construct":
            existing = [c.name for c in sim.clients if c.is_det]
            pool = []
            for c in sim.clients:
                if not c.is_det:
                    pool.append(c.name)

            def pick(cats, kinds=None, fixed=None, private_kinds=("l2",)):
                _, sp = self.new_cost(list(private_kinds), fixed=bool(fixed))
                return sp

            name, spec = self.detector_spec(pick, existing)
            self.n_constructed += 1
            st = {"op": "construct", "name": f"n{self.n_constructed}", "spec": spec}
        elif op == "evaluate":
            st = {"op": "evaluate", "c": i}
            st.update(self.cuts(sim, cl))
        elif op in ("update", "update_predict"):
            like = cl.lin[0][1] if fitted and cl.lin[0][1] is not None else self.choice([d for d in sim.trace["datasets"] if not d.get("bad")])["id"]
            spec = sim.ds_spec[like]
            m = int(r.integers(1, 9))
            st = {"op": op, "c": i, "like": like, "values": values_to_json(self.values(m, len(spec["columns"]), spec.get("dtype", "float64")))}
            if fitted and r.random() < 0.25:
                # a sliding window / revised values: the chunk re-sends the last few labels
                st["overlap"] = int(r.integers(1, 6))
        elif st is None:
            st = {"op": op, "c": i, "d": self.pick_dataset(sim, cl, "bad_data" in self.cfg["faults"])}
        if st["op"] in ("evaluate", "transform_scores") and r.random() < 0.06:
            st["scribble"] = True
        # faults inside calls
        if st["op"] in DATA_OPS + ("update", "evaluate") and r.random() < self.cfg["p_fault"]:
            kinds = [k for k in self.cfg["faults"] if k in ("interrupt", "flaky")]
            if kinds:
                fk = self.choice(kinds)
                frac = float(r.random())
                arg, _, _, _ = sim.materialise_arg(st, cl)
                L, counts = sim.dry_run(i, st["op"], arg)
                if fk == "flaky" and counts:
                    site = sorted(counts)[int(r.integers(len(counts)))]
                    st["fault"] = {"kind": "flaky", "site": site, "at": 1 + int(frac * counts[site])}
                elif L > 0:
                    st["fault"] = {"kind": "interrupt", "at": 1 + int(frac * L)}
                    if r.random() < 0.3:
                        st["fault"]["alloc"] = True
        if st["op"] in ("fit", "update", "update_predict", "fit_predict", "fit_transform", "set_params", "clone", "reset"):
            self.last_changer = st.get("c")
        if st["op"] in ("fit", "fit_predict", "fit_transform", "update", "update_predict") and st.get("c") is not None and st["c"] < len(sim.clients) and sim.clients[st["c"]].is_det:
            self.follow = (st["c"], self.choice(["update", "update", "predict", "transform_scores", "transform"]))
            if r.random() < 0.15:
                st["y"] = True
        return st


# --------------------------------------------------------------------------------------
# property interface used by the runner
# --------------------------------------------------------------------------------------
def _result(sim, trace):
    return {
        "trace": trace,
        "violations": sim.violations,
        "stats": sim.stats,
        "digest": sim.event_digest(),
        "signature": core.digest(sim.sig),
        "nontrivial": bool(sim.nontrivial),
        "sig_list": sim.sig,
        "build_failures": sim.build_failures,
    }


def run_one(seed, idx, tier, pristine=None):
    from histsim.c10 import Sim

    rng = core.make_rng(seed, "C10", idx)
    g = Gen(rng, tier)
    w = g.world()
    trace = {
        "property": "C10",
        "seed": int(seed),
        "run": int(idx),
        "tier": tier,
        "config": g.cfg,
        "datasets": w["datasets"],
        "objects": w["objects"],
        "steps": [],
    }
    sim = Sim(trace, pristine)
    if not sim.clients:
        return _result(sim, trace)
    for _ in range(g.cfg["nsteps"]):
        st = g.step(sim)
        trace["steps"].append(st)
        sim.execute(st)
        if sim.violations:
            break
        if sim.stats.get("hangs", 0) >= 3:
            # the tree under test loops forever in this configuration (3.4): do not burn
            # the run's wall-clock guard on it
            sim.probe("run_cut_short_by_hangs")
            break
    sim.finish()
    return _result(sim, trace)


def replay(trace, pristine=None):
    from histsim.c10 import Sim

    sim = Sim(trace, pristine)
    for st in trace["steps"]:
        sim.execute(st)
        if sim.violations:
            break
    sim.finish()
    return _result(sim, trace)


from histsim.c10 import pristine_handler as PRISTINE_HANDLER  # noqa: E402,F401

TIERS = {"quick": {"runs": 1600, "guard": 180}, "thorough": {"runs": 24000, "guard": 600}}

RULE = (
    "One case = one seeded history: a world of 2-10 clients (detectors and scorers, sharing scorer instances "
    "per a seeded sharing graph) over a seeded dataset pool with same-shape twins, driven for 8-60 (thorough: "
    "-150) public calls chosen by a biased seeded scheduler, with seeded faults (bad data, singular slices, "
    "interrupts and allocation failures at a skchange source line, failing stub peers, bad cuts). Every output call on a client in a "
    "specified state is compared with a brand-new twin built from the client's current hyper-parameters and "
    "fitted on its training lineage. A history is non-trivial if it contains at least one compared output of a "
    "fitted client (i.e. preceded by state-changing calls on that object); distinct = distinct sequence of "
    "(client class, operation, dataset relation same/twin/other/bad/chunk/cuts, fired fault kind)."
)

ASSUMPTIONS = [
    "public calls are atomic: no pre-emption inside a call (the library is synchronous and single-threaded)",
    "a failed or interrupted fit/update leaves the client unspecified until its next successful fit (relaxation 1)",
    "direct evaluate on a scorer that another client refitted on other data is not compared (relaxation 2)",
    "hyper-parameter changes take effect at the next fit (relaxation 3)",
    "update is compared for chunks that continue the training index or re-send its last labels (union of labels, newer values win, index order); chunks of another layout are not judged (relaxation 4)",
    "after an in-place overwrite of its training data object a detector's output must agree with a fresh object fitted on the values at the fit OR on the values the object holds now; scorer clients are not judged until their next fit",
    "numba is absent: the pure-Python fallbacks of skchange run, every source line is a possible crash point",
    "exceptions are compared by type only",
    "sampling, not enumeration: a clean batch is evidence, not proof",
]


# --------------------------------------------------------------------------------------
# crash-site sweep and flaky-peer sweep (DESIGN 4.1, "thorough tier adds")
# --------------------------------------------------------------------------------------
REF = {"__ref__": "s0"}
L2N = {"__cls__": "L2Cost", "params": {"param": None}}
SWEEP_DETECTORS = {
    "PELT": ("cost", {"penalty_scale": 1.0, "min_segment_length": 2}, ["l2", "gv", "ad"]),
    "MovingWindow": ("change_score", {"bandwidth": 3, "threshold_scale": None, "level": 0.2, "min_detection_interval": 1}, ["l2", "cusum", "cs_gv", "ad"]),
    "SeededBinarySegmentation": ("change_score", {"threshold_scale": 1.0, "level": 1e-8, "min_segment_length": 2, "max_interval_length": 12, "growth_factor": 1.5}, ["l2", "cusum", "ad"]),
    "CircularBinarySegmentation": ("anomaly_score", {"threshold_scale": 1.0, "level": 1e-8, "min_segment_length": 2, "max_interval_length": 8, "growth_factor": 2.0}, ["l2", "las_gv"]),
    "CAPA": ("collective_saving", {"point_saving": None, "collective_penalty_scale": 1.0, "point_penalty_scale": 1.0, "min_segment_length": 2, "max_segment_length": 8, "ignore_point_anomalies": True}, ["l2f", "sav_l2f", "l2sav", "adf"]),
    "MVCAPA": ("collective_saving", {"point_saving": None, "collective_penalty": "combined", "collective_penalty_scale": 1.0, "point_penalty": "sparse", "point_penalty_scale": 1.0, "min_segment_length": 2, "max_segment_length": 8, "ignore_point_anomalies": True}, ["l2f", "l2sav"]),
    "StatThresholdAnomaliser": ("change_detector", {"stat": {"__fn__": "np.mean"}, "stat_lower": -1.0, "stat_upper": 1.0}, ["pelt_l2"]),
}
SWEEP_SCORERS = {
    "l2": L2N,
    "gv": {"__cls__": "GaussianVarCost", "params": {"param": None}},
    "ad": {"__cls__": "AbsDevCost", "params": {"param": None}},
    "adf": {"__cls__": "AbsDevCost", "params": {"param": 0.5}},
    "l2f": {"__cls__": "L2Cost", "params": {"param": 0.5}},
    "cusum": {"__cls__": "CUSUM", "params": {}},
    "l2sav": {"__cls__": "L2Saving", "params": {}},
    "cs_gv": {"__cls__": "ChangeScore", "params": {"cost": {"__cls__": "GaussianVarCost", "params": {"param": None}}}},
    "sav_l2f": {"__cls__": "Saving", "params": {"baseline_cost": {"__cls__": "L2Cost", "params": {"param": 0.5}}}},
    "las_gv": {"__cls__": "LocalAnomalyScore", "params": {"cost": {"__cls__": "GaussianVarCost", "params": {"param": None}}}},
    "gc": {"__cls__": "GaussianCovCost", "params": {"param": None}},
}
SWEEP_DET_OPS = ["predict", "transform", "transform_scores", "fit", "update"]
SWEEP_SCORER_OPS = ["s_fit", "s_evaluate"]


def sweep_tasks():
    tasks = []
    for kind, (pname, params, scorers) in SWEEP_DETECTORS.items():
        for sc in scorers:
            for op in SWEEP_DET_OPS:
                for sharing in (False, True):
                    tasks.append({"det": kind, "scorer": sc, "op": op, "sharing": sharing, "fault": "interrupt"})
                    if sc in ("ad", "adf"):
                        tasks.append({"det": kind, "scorer": sc, "op": op, "sharing": sharing, "fault": "flaky"})
    for sc in ("l2", "gv", "gc", "cusum", "l2sav", "cs_gv", "sav_l2f", "las_gv", "ad"):
        for op in SWEEP_SCORER_OPS:
            tasks.append({"det": "PELT" if sc in ("l2", "gv", "gc", "ad") else None, "scorer": sc, "op": op, "sharing": False, "fault": "interrupt"})
    # composite scorers over a cost object that the user also holds and uses directly
    for comp in ("ChangeScore", "Saving", "LocalAnomalyScore"):
        for op in SWEEP_SCORER_OPS:
            tasks.append({"det": None, "scorer": comp, "op": op, "sharing": True, "fault": "interrupt", "inner": True})
    return tasks


def inner_sweep_trace(task, rng, seed, idx):
    """A composite scorer (client 1) over a cost object the user holds as well (client 0):
    the composite's fit / evaluate is interrupted at every line, then the user works with
    the cost directly - cuts as a list, a single 1-D cut, an array - and with the
    composite again."""
    n, p = 16, 1
    comp = task["scorer"]

    def mk(did):
        x = np.round(rng.normal(size=(n, p)), 2)
        a = int(rng.integers(3, 8))
        x[a : a + 4] += 4.0
        return {"id": did, "family": 0, "container": "df", "dtype": "float64", "index": {"kind": "range", "start": 0}, "columns": ["v0"], "values": values_to_json(x)}

    fixed = comp == "Saving"
    cost = {"__cls__": "L2Cost" if idx % 2 == 0 else "GaussianVarCost", "params": {"param": (0.5 if idx % 2 == 0 else tup(0.0, 1.5)) if fixed else None}}
    pname = "baseline_cost" if comp == "Saving" else "cost"
    objects = [{"name": "s0", "spec": cost}, {"name": "s1", "spec": {"__cls__": comp, "params": {pname: {"__ref__": "s0"}}}}]
    k = {"ChangeScore": 3, "Saving": 2, "LocalAnomalyScore": 4}[comp]
    base = {2: [2, 12], 3: [0, 4, 9], 4: [0, 4, 9, 14]}[k]
    cuts = [base, [b + 1 for b in base]]
    ccuts = [[2, 12], [3, 13]]
    pre = [{"op": "fit", "c": 0, "d": 1}, {"op": "fit", "c": 1, "d": 0}]
    if task["op"] == "s_fit":
        X = {"op": "fit", "c": 1, "d": 1}
        post = [{"op": "fit", "c": 1, "d": 0}]
    else:
        X = {"op": "evaluate", "c": 1, "cuts": cuts}
        post = []
    post += [
        {"op": "fit", "c": 0, "d": 1},
        {"op": "evaluate", "c": 0, "cuts": ccuts, "cuts_layout": "list"},
        {"op": "evaluate", "c": 0, "cuts": ccuts[:1], "cuts_1d": True},
        {"op": "evaluate", "c": 1, "cuts": cuts},
        {"op": "fit", "c": 1, "d": 1},
        {"op": "evaluate", "c": 1, "cuts": cuts, "cuts_layout": "list"},
        {"op": "evaluate", "c": 0, "cuts": ccuts},
    ]
    trace = {"property": "C10", "seed": int(seed), "run": int(idx), "tier": "sweep", "config": {"routes": [], "pristine": False, "sweep": task}, "datasets": [mk(0), mk(1)], "objects": objects, "steps": []}
    return trace, pre, X, post


def sweep_trace(task, rng, seed, idx):
    if task.get("inner"):
        return inner_sweep_trace(task, rng, seed, idx)
    p = 2 if task["det"] == "MVCAPA" or task["scorer"] == "gc" else 1
    if task["det"] == "StatThresholdAnomaliser":
        p = 1
    n = 16

    def mk(did):
        x = np.round(rng.normal(size=(n, p)), 2)
        a = int(rng.integers(3, 8))
        x[a : a + 4] += 4.0
        return {"id": did, "family": 0, "container": "df", "dtype": "float64", "index": {"kind": "range", "start": 0}, "columns": [f"v{j}" for j in range(p)], "values": values_to_json(x)}

    datasets = [mk(0), mk(1)]
    objects = []
    if task["scorer"] == "pelt_l2":
        objects.append({"name": "s0", "spec": {"__cls__": "PELT", "params": {"cost": L2N, "penalty_scale": 1.0, "min_segment_length": 2}}})
    else:
        objects.append({"name": "s0", "spec": SWEEP_SCORERS[task["scorer"]]})
    ci = {"s0": 0}
    if task["det"] is not None:
        pname, params, _ = SWEEP_DETECTORS[task["det"]]
        sp = dict(params)
        sp[pname] = REF
        objects.append({"name": "d0", "spec": {"__cls__": task["det"], "params": sp}})
        ci["d0"] = 1
        if task["sharing"]:
            # a second client on the very same scorer object
            if task["det"] == "StatThresholdAnomaliser":
                sp2 = dict(params, stat_lower=-0.5, stat_upper=0.5)
                sp2[pname] = REF
                objects.append({"name": "d1", "spec": {"__cls__": task["det"], "params": sp2}})
            elif task["scorer"] in ("l2", "gv", "ad", "l2f", "adf"):
                objects.append({"name": "d1", "spec": {"__cls__": "PELT", "params": {"cost": REF, "penalty_scale": 0.5, "min_segment_length": 3}}})
            else:
                sp2 = dict(params)
                sp2[pname] = REF
                for k in ("min_segment_length",):
                    if k in sp2:
                        sp2[k] = sp2[k] + 1
                if "bandwidth" in sp2:
                    sp2["bandwidth"] = 4
                objects.append({"name": "d1", "spec": {"__cls__": task["det"], "params": sp2}})
            ci["d1"] = 2
    is_scorer = task["scorer"] != "pelt_l2"
    k_cuts = {"l2": 2, "gv": 2, "gc": 2, "ad": 2, "adf": 2, "l2f": 2, "cusum": 3, "cs_gv": 3, "l2sav": 2, "sav_l2f": 2, "las_gv": 4}.get(task["scorer"], 2)
    base = [0, 4, 9, 14][:k_cuts] if k_cuts < 4 else [0, 4, 9, 14]
    if k_cuts == 2:
        base = [2, 12]
    cuts = [base, [b + 1 for b in base]]
    chunk = values_to_json(np.round(rng.normal(size=(5, p)), 2))
    pre, post = [], []
    op = task["op"]
    if op.startswith("s_"):
        pre.append({"op": "fit", "c": 0, "d": 0})
        if task["det"] is not None:
            pre.append({"op": "fit", "c": 1, "d": 0})
        X = {"op": "fit", "c": 0, "d": 1} if op == "s_fit" else {"op": "evaluate", "c": 0, "cuts": cuts}
        if op == "s_fit":
            post += [{"op": "fit", "c": 0, "d": 0}, {"op": "evaluate", "c": 0, "cuts": cuts}]
        else:
            post += [{"op": "evaluate", "c": 0, "cuts": cuts}, {"op": "evaluate", "c": 0, "cuts": cuts[:1], "cuts_1d": True}]
        if task["det"] is not None:
            post += [{"op": "predict", "c": 1, "d": 0}, {"op": "transform_scores", "c": 1, "d": 1}]
    else:
        if op != "fit":
            pre.append({"op": "fit", "c": 1, "d": 0})
        if task["sharing"]:
            pre.append({"op": "fit", "c": 2, "d": 1})
            pre.append({"op": "predict", "c": 2, "d": 1})
        if op == "update":
            X = {"op": "update", "c": 1, "like": 0, "values": chunk}
        else:
            X = {"op": op, "c": 1, "d": 1}
        if op in ("fit", "update"):
            post += [{"op": "fit", "c": 1, "d": 0}]
        post += [{"op": "predict", "c": 1, "d": 0}, {"op": "transform_scores", "c": 1, "d": 1}, {"op": "transform", "c": 1, "d": 1}]
        if task["sharing"]:
            post += [{"op": "predict", "c": 2, "d": 1}, {"op": "fit", "c": 2, "d": 0}, {"op": "transform", "c": 2, "d": 0}]
        if is_scorer:
            post += [{"op": "fit", "c": 0, "d": 1}, {"op": "evaluate", "c": 0, "cuts": cuts}]
    trace = {
        "property": "C10",
        "seed": int(seed),
        "run": int(idx),
        "tier": "sweep",
        "config": {"routes": [], "pristine": False, "sweep": task},
        "datasets": datasets,
        "objects": objects,
        "steps": [],
    }
    return trace, pre, X, post


def run_sweep(seed, idx, tier, pristine=None):
    """One sweep task: enumerate the crash points (or stub-call indices) of one call and
    replay the small world once per point."""
    from histsim.c10 import FAULTS_counts, Sim  # noqa: F401

    tasks = sweep_tasks()
    task = tasks[idx % len(tasks)]
    rng = core.make_rng(seed, "C10", 10**6 + idx)
    trace, pre, X, post = sweep_trace(task, rng, seed, idx)
    sim = Sim(dict(trace, steps=[]), None)
    for st in pre:
        sim.execute(st)
    cl = sim.clients[X["c"]]
    arg, _, _, _ = sim.materialise_arg(X, cl)
    sites, counts = sim.dry_run_sites(X["c"], X["op"], arg)
    points = []
    if task["fault"] == "interrupt":
        by_site = {}
        for k, s in enumerate(sites, start=1):
            by_site.setdefault(s, []).append(k)
        for s, ks in sorted(by_site.items()):
            chosen = {ks[0]}
            if tier == "thorough":
                chosen.add(ks[-1])
                chosen.add(ks[int(rng.integers(len(ks)))])
            for k in sorted(chosen):
                points.append({"kind": "interrupt", "at": k})
        if tier != "thorough" and not task.get("inner"):
            # quick: a seeded third of the points
            points = [pt for j, pt in enumerate(points) if (j + idx + seed) % 3 == 0]
    else:
        for site, K in sorted(counts.items()):
            ks = range(1, K + 1) if (tier == "thorough" or K <= 12) else sorted(set(int(v) for v in rng.integers(1, K + 1, size=12)))
            for k in ks:
                points.append({"kind": "flaky", "site": site, "at": int(k)})
    agg_stats = {}
    total_steps = 0
    first = None
    sig = set()
    for pt in points:
        tr = dict(trace)
        Xf = dict(X, fault=pt)
        tr["steps"] = pre + [Xf] + post
        s2 = Sim(tr, None)
        for st in tr["steps"]:
            s2.execute(st)
            if s2.violations:
                break
        s2.finish()
        total_steps += len(s2.events)
        from histsim.runner import merge_stats

        merge_stats(agg_stats, s2.stats)
        if s2.violations and first is None:
            first = (tr, s2.violations)
            break
    agg_stats.setdefault("probes", {})
    agg_stats["probes"]["sweep_points"] = len(points)
    agg_stats["probes"]["sweep_distinct_lines"] = len(set(sites)) if task["fault"] == "interrupt" else 0
    trace_out = first[0] if first else dict(trace, steps=pre + [X] + post)
    return {
        "trace": trace_out,
        "violations": first[1] if first else [],
        "stats": agg_stats,
        "digest": core.digest([task, len(points)]),
        "signature": core.digest(["sweep", task]),
        "nontrivial": True,
        "sig_list": [],
        "build_failures": sim.build_failures,
        "sample": None,
    }


def extra_checks(seed, tier, args):
    """Crash-site and flaky-peer sweeps, plus (thorough) two-interpreter agreement."""
    from histsim import runner

    tasks = sweep_tasks()
    if tier == "thorough":
        idxs = list(range(len(tasks)))
    else:
        idxs = [i for i in range(len(tasks)) if (i + seed) % 6 == 0 or tasks[i].get("inner")]
    res = runner.run_batch("C10", seed, tier, idxs, workers=args.workers, per_run_guard=900, chunk=1, fn="run_sweep")
    ptasks = pair_tasks()
    pidx = list(range(len(ptasks)))
    res2 = runner.run_batch("C10", seed, tier, pidx, workers=args.workers, per_run_guard=300, chunk=8, fn="run_pairs")
    stasks = shape_tasks()
    res3 = runner.run_batch("C10", seed, tier, list(range(len(stasks))), workers=args.workers, per_run_guard=300, chunk=8, fn="run_shapes")
    pts = sum(r.get("stats", {}).get("probes", {}).get("sweep_points", 0) for r in res if "stats" in r)
    extra = {"crash_site_sweep": {"tasks_run": len(idxs), "tasks_total": len(tasks), "points": int(pts), "what": "per (detector x scorer x operation x shared/unshared) and (scorer x fit/evaluate): an interrupt at the first (thorough: also last and one random) dynamic hit of every distinct skchange source line the call executes, and for the stub cost a failure at every k-th stub call; each followed by calls on the interrupted client, the sharing client and the scorer, compared with fresh twins"}}
    extra["configuration_pair_sweep"] = {"cases": len(pidx), "complete": True, "what": "for every detector x two scorers x data width x hyper-parameter (own and scorer parameter) x ordered value pair (v1, v2) involving the first menu value: A(v1) and B(v2) used one after the other on the same data, then A.set_params(v2) / B.set_params(v1) and refit; every output judged against constructor-, clone- and set_params-built twins in-process and a twin in a pristine process"}
    extra["data_shape_sweep"] = {"cases": len(stasks), "complete": True, "what": "for every detector (but the univariate anomaliser) x three scorers x six (n, p) -> (n', p') sequences x two change magnitudes: fit and use on the first shape, refit and use on the second, use on the first again, fit_predict / fit_transform back and forth; data carry a sparse (one-column) collective change and a point outlier; every output judged against constructor- and clone-built twins and a pristine-process twin"}
    ktasks = scale_tasks()
    kidx = list(range(len(ktasks))) if tier == "thorough" else [i for i in range(len(ktasks)) if ktasks[i]["det"] != "CircularBinarySegmentation" or (i + seed) % 3 == 0]
    res4 = runner.run_batch("C10", seed, tier, kidx, workers=args.workers, per_run_guard=900, chunk=1, fn="run_scale")
    extra["scale_sweep"] = {"cases_run": len(kidx), "cases_total": len(ktasks), "what": "series of 110-320 rows with hyper-parameters scaled up accordingly (interval / segment lengths and bandwidths of 30-130, so that candidate sets run into the thousands): for every detector x two scorers x three size pairs: fit, predict, scores on a same-shape twin, predict again, refit on the other size, use on both sizes, an update; every output judged against constructor- and clone-built twins and a pristine-process twin. Reaches code paths that only switch on beyond a size (fast paths, sub-sampling, chunking, display limits)"}
    return res + res2 + res3 + res4, extra


# --------------------------------------------------------------------------------------
# configuration-pair sweep: two configurations that differ in exactly one
# hyper-parameter, used one after the other on the same data in one process, each judged
# against an in-process twin and a pristine-process twin.  Finds state keyed on
# "everything but that parameter" (instance-, class- or module-level).
# --------------------------------------------------------------------------------------
PAIR_MENU = {
    "PELT": [("penalty_scale", [0.5, 2.0, 0.0]), ("min_segment_length", [1, 2, 3])],
    "MovingWindow": [("bandwidth", [3, 4, 6]), ("threshold_scale", [None, 0.5, 2.0]), ("level", [0.2, 0.01]), ("min_detection_interval", [1, 2])],
    "SeededBinarySegmentation": [("threshold_scale", [1.0, None, 0.3]), ("level", [1e-8, 0.2]), ("min_segment_length", [2, 1, 3]), ("max_interval_length", [12, 8, 20]), ("growth_factor", [1.5, 1.2, 2.0])],
    "CircularBinarySegmentation": [("threshold_scale", [1.0, None, 0.3]), ("level", [1e-8, 0.2]), ("min_segment_length", [2, 3]), ("max_interval_length", [8, 10]), ("growth_factor", [2.0, 1.5])],
    "CAPA": [("collective_penalty_scale", [1.0, 0.3, 3.0]), ("point_penalty_scale", [1.0, 0.3]), ("min_segment_length", [2, 3]), ("max_segment_length", [8, 4, 100]), ("ignore_point_anomalies", [True, False])],
    "MVCAPA": [("collective_penalty_scale", [1.0, 0.3, 3.0]), ("point_penalty_scale", [1.0, 0.3]), ("min_segment_length", [2, 3]), ("max_segment_length", [8, 4, 100]), ("ignore_point_anomalies", [True, False]), ("collective_penalty", ["combined", "dense", "sparse", "intermediate", {"__fn__": "pen_flat"}]), ("point_penalty", ["sparse", "dense"])],
    "StatThresholdAnomaliser": [("stat_lower", [-1.0, 0.0]), ("stat_upper", [1.0, 2.0]), ("stat", [{"__fn__": "np.mean"}, {"__fn__": "np.median"}]), ("change_detector__penalty_scale", [1.0, 0.3])],
}
PAIR_SCORER_PARAM = {
    "l2": [None, 0.0, 1.0],
    "gv": [None, tup(0.0, 1.0), tup(0.5, 2.0)],
    "l2f": [0.5, 0.0, -1.0],
    "ad": [None, 0.5],
    "adf": [0.5, 0.0],
}


def pair_tasks():
    tasks = []
    for kind, (pname, params, scorers) in SWEEP_DETECTORS.items():
        for sc in scorers[:2]:
            for p in ((2, 3) if kind == "MVCAPA" else (1,) if kind == "StatThresholdAnomaliser" else (1, 2)):
                for path, vals in PAIR_MENU[kind]:
                    for a in range(len(vals)):
                        for b in range(len(vals)):
                            if a != b and (a == 0 or b == 0):
                                tasks.append({"det": kind, "scorer": sc, "p": p, "path": path, "v1": vals[a], "v2": vals[b]})
                if sc in PAIR_SCORER_PARAM:
                    vals = PAIR_SCORER_PARAM[sc]
                    for a in range(len(vals)):
                        for b in range(len(vals)):
                            if a != b and (a == 0 or b == 0):
                                tasks.append({"det": kind, "scorer": sc, "p": p, "path": pname + "__param", "v1": vals[a], "v2": vals[b]})
    return tasks


def run_pairs(seed, idx, tier, pristine=None):
    from histsim.c10 import Sim

    tasks = pair_tasks()
    task = tasks[idx % len(tasks)]
    rng = core.make_rng(seed, "C10", 2 * 10**6 + idx)
    kind = task["det"]
    pname, params, _ = SWEEP_DETECTORS[kind]
    p = task["p"]
    n = int(rng.integers(18, 27))

    def mk(did):
        x = np.round(rng.normal(size=(n, p)), 2)
        a = int(rng.integers(3, 9))
        x[a : a + 5, : max(1, p - 1)] += 4.0
        x[int(rng.integers(n)), 0] += 6.0
        return {"id": did, "family": 0, "container": "df", "dtype": "float64", "index": {"kind": "range", "start": 0}, "columns": [f"v{j}" for j in range(p)], "values": values_to_json(x)}

    def spec(v):
        sp = dict(params)
        if task["scorer"] == "pelt_l2":
            inner = {"__cls__": "PELT", "params": {"cost": L2N, "penalty_scale": 1.0, "min_segment_length": 2}}
        else:
            inner = json_copy(SWEEP_SCORERS[task["scorer"]])
        sp[pname] = inner
        if kind == "MovingWindow":
            sp["bandwidth"] = 6 if task["path"] == "min_detection_interval" else sp["bandwidth"]
        path = task["path"].split("__")
        tgt = sp
        for q in path[:-1]:
            tgt = tgt[q]["params"]
        tgt[path[-1]] = v
        return {"__cls__": kind, "params": sp}

    trace = {
        "property": "C10",
        "seed": int(seed),
        "run": int(idx),
        "tier": "pairs",
        "config": {"routes": ["clone", "setp"], "pristine": True, "pairs": task},
        "datasets": [mk(0), mk(1)],
        "objects": [{"name": "dA", "spec": spec(task["v1"])}, {"name": "dB", "spec": spec(task["v2"])}],
        "steps": [
            {"op": "fit", "c": 0, "d": 0},
            {"op": "predict", "c": 0, "d": 0},
            {"op": "transform_scores", "c": 0, "d": 1},
            {"op": "fit", "c": 1, "d": 0},
            {"op": "predict", "c": 1, "d": 0},
            {"op": "transform_scores", "c": 1, "d": 1},
            {"op": "transform", "c": 1, "d": 1},
            {"op": "set_params", "c": 0, "path": task["path"], "value": task["v2"]},
            {"op": "fit", "c": 0, "d": 0},
            {"op": "predict", "c": 0, "d": 0},
            {"op": "transform_scores", "c": 0, "d": 1},
            {"op": "set_params", "c": 1, "path": task["path"], "value": task["v1"]},
            {"op": "fit_predict", "c": 1, "d": 1},
            {"op": "transform_scores", "c": 1, "d": 0},
        ],
    }
    sim = Sim(trace, pristine)
    for st in trace["steps"]:
        sim.execute(st)
        if sim.violations:
            break
    sim.finish()
    r = _result(sim, trace)
    r["signature"] = core.digest(["pairs", task])
    r["stats"].setdefault("probes", {})["config_pairs"] = 1
    return r


def json_copy(x):
    import json as _j

    return _j.loads(_j.dumps(x))


def shrink_world(trace, still_fails):
    """Minimisation step (iii): drop clients, scorers and datasets the remaining steps do
    not need (client indices in the steps are remapped)."""
    import json as _j

    tr = _j.loads(_j.dumps(trace))
    changed = False
    # objects, last to first
    k = len(tr["objects"]) - 1
    while k >= 0:
        name = tr["objects"][k]["name"]
        referenced = any(('"__ref__": "%s"' % name) in _j.dumps(o["spec"]) for o in tr["objects"]) or any(
            ('"__ref__": "%s"' % name) in _j.dumps(st) for st in tr["steps"]
        )
        used = any(st.get("c") == k for st in tr["steps"])
        if not referenced and not used:
            cand = _j.loads(_j.dumps(tr))
            del cand["objects"][k]
            for st in cand["steps"]:
                if isinstance(st.get("c"), int) and st["c"] > k:
                    st["c"] -= 1
            if still_fails(cand):
                tr = cand
                changed = True
        k -= 1
    used_ds = {st.get("d") for st in tr["steps"]} | {st.get("like") for st in tr["steps"]}
    cand = _j.loads(_j.dumps(tr))
    cand["datasets"] = [d for d in cand["datasets"] if d["id"] in used_ds]
    if len(cand["datasets"]) < len(tr["datasets"]) and cand["datasets"] and still_fails(cand):
        tr = cand
        changed = True
    return tr if changed else None


# --------------------------------------------------------------------------------------
# data-shape sweep: one object fitted on data of one width / length, used, refitted on
# another width / length, used again (and back).  Finds state that is assigned in one
# branch only (p = 1 vs p > 1, short vs long) or sized by the first data seen.
# --------------------------------------------------------------------------------------
SHAPE_SEQS = [((24, 1), (24, 3)), ((24, 3), (24, 1)), ((24, 2), (40, 2)), ((40, 2), (24, 2)), ((24, 1), (30, 2)), ((30, 3), (20, 2))]


def shape_tasks():
    tasks = []
    for kind, (pname, params, scorers) in SWEEP_DETECTORS.items():
        if kind == "StatThresholdAnomaliser":
            continue
        for sc in scorers[:3]:
            for seq in SHAPE_SEQS:
                for mag in (2.5, 5.0):
                    tasks.append({"det": kind, "scorer": sc, "shapes": seq, "mag": mag})
    return tasks


def run_shapes(seed, idx, tier, pristine=None):
    from histsim.c10 import Sim

    tasks = shape_tasks()
    task = tasks[idx % len(tasks)]
    rng = core.make_rng(seed, "C10", 3 * 10**6 + idx)
    kind = task["det"]
    pname, params, _ = SWEEP_DETECTORS[kind]

    def mk(did, n, p, fam):
        x = np.round(rng.normal(size=(n, p)), 2)
        a = int(rng.integers(3, n // 2))
        # a sparse collective change (one column) and a point outlier
        x[a : a + 5, int(rng.integers(p))] += task["mag"]
        x[int(rng.integers(n)), int(rng.integers(p))] += 2 * task["mag"]
        return {"id": did, "family": fam, "container": "df", "dtype": "float64", "index": {"kind": "range", "start": 0}, "columns": [f"v{j}" for j in range(p)], "values": values_to_json(x)}

    (n1, p1), (n2, p2) = task["shapes"]
    sp = dict(params)
    sp[pname] = json_copy(SWEEP_SCORERS[task["scorer"]])
    if kind == "MVCAPA":
        sp["collective_penalty"] = ["combined", "intermediate", "sparse"][idx % 3]
        sp["ignore_point_anomalies"] = True
    trace = {
        "property": "C10",
        "seed": int(seed),
        "run": int(idx),
        "tier": "shapes",
        "config": {"routes": ["clone"], "pristine": True, "shapes": task},
        "datasets": [mk(0, n1, p1, 0), mk(1, n1, p1, 0), mk(2, n2, p2, 1), mk(3, n2, p2, 1)],
        "objects": [{"name": "d0", "spec": {"__cls__": kind, "params": sp}}],
        "steps": [
            {"op": "fit", "c": 0, "d": 0},
            {"op": "predict", "c": 0, "d": 1},
            {"op": "transform_scores", "c": 0, "d": 0},
            {"op": "fit", "c": 0, "d": 2},
            {"op": "predict", "c": 0, "d": 2},
            {"op": "transform_scores", "c": 0, "d": 3},
            {"op": "transform", "c": 0, "d": 3},
            {"op": "predict", "c": 0, "d": 1},
            {"op": "fit_predict", "c": 0, "d": 1},
            {"op": "transform_scores", "c": 0, "d": 0},
            {"op": "fit_transform", "c": 0, "d": 3},
            {"op": "transform_scores", "c": 0, "d": 2},
        ],
    }
    sim = Sim(trace, pristine)
    for st in trace["steps"]:
        sim.execute(st)
        if sim.violations:
            break
    sim.finish()
    r = _result(sim, trace)
    r["signature"] = core.digest(["shapes", task])
    r["stats"].setdefault("probes", {})["shape_cases"] = 1
    return r


# --------------------------------------------------------------------------------------
# scale sweep: long series with hyper-parameters scaled up accordingly.  The random
# histories keep n <= 80 and interval lengths <= 25 so that thousands of them fit in a
# minute; a fast path, a sub-sampling step or a chunked loop that only switches on beyond
# a size is out of their reach (seeded change c10h-m2 was).  A few long cases close that.
# --------------------------------------------------------------------------------------
SCALE_SIZES = [((130, 1), (210, 1)), ((320, 1), (110, 1)), ((160, 2), (128, 2))]
SCALE_PARAMS = {
    "PELT": {"min_segment_length": 3},
    "MovingWindow": {"bandwidth": 40, "min_detection_interval": 5},
    "SeededBinarySegmentation": {"max_interval_length": 130, "min_segment_length": 3, "growth_factor": 1.3},
    "CircularBinarySegmentation": {"max_interval_length": 108, "min_segment_length": 2, "growth_factor": 1.5},
    "CAPA": {"max_segment_length": 120, "ignore_point_anomalies": False},
    "MVCAPA": {"max_segment_length": 120, "ignore_point_anomalies": False},
    "StatThresholdAnomaliser": {},
}


def scale_tasks():
    tasks = []
    for kind, (pname, params, scorers) in SWEEP_DETECTORS.items():
        for sc in scorers[:2]:
            for sizes in SCALE_SIZES:
                if sizes[0][1] > 1 and kind == "StatThresholdAnomaliser":
                    continue
                tasks.append({"det": kind, "scorer": sc, "sizes": sizes})
    for sc in ("l2", "gv", "gc", "cusum", "l2sav", "cs_gv", "sav_l2f", "las_gv", "ad"):
        tasks.append({"det": None, "scorer": sc, "sizes": ((330, 1), (330, 1))})
    return tasks


def run_scale_scorer(task, seed, idx, pristine):
    """A scorer used directly on a long series with batches of hundreds of cuts: the
    same batch again after the caller scribbled on the returned array, the batch
    shuffled, a refit on a same-shape twin, the batch again."""
    from histsim.c10 import Sim

    rng = core.make_rng(seed, "C10", 4 * 10**6 + idx)
    n, p = 330, (2 if task["scorer"] == "gc" else 1)

    def mk(did):
        x = np.round(rng.normal(size=(n, p)), 2)
        x[100:140] += 3.0
        return {"id": did, "family": 0, "container": "ndarray", "dtype": "float64", "index": {"kind": "range", "start": 0}, "columns": [f"v{j}" for j in range(p)], "values": values_to_json(x)}

    k = {"cusum": 3, "cs_gv": 3, "las_gv": 4}.get(task["scorer"], 2)
    rows = []
    for _ in range(int(rng.integers(280, 520))):
        pts = sorted(int(v) for v in rng.choice(np.arange(0, n + 1, 4), size=k, replace=False))
        rows.append(pts)
    shuffled = [rows[j] for j in rng.permutation(len(rows))]
    trace = {
        "property": "C10",
        "seed": int(seed),
        "run": int(idx),
        "tier": "scale",
        "config": {"routes": ["clone"], "pristine": True, "scale": task},
        "datasets": [mk(0), mk(1)],
        "objects": [{"name": "s0", "spec": json_copy(SWEEP_SCORERS[task["scorer"]])}],
        "steps": [
            {"op": "fit", "c": 0, "d": 0},
            {"op": "evaluate", "c": 0, "cuts": rows, "scribble": True},
            {"op": "evaluate", "c": 0, "cuts": rows},
            {"op": "evaluate", "c": 0, "cuts": shuffled, "scribble": True},
            {"op": "evaluate", "c": 0, "cuts": rows[:3]},
            {"op": "evaluate", "c": 0, "cuts": shuffled},
            {"op": "fit", "c": 0, "d": 1},
            {"op": "evaluate", "c": 0, "cuts": rows},
        ],
    }
    sim = Sim(trace, pristine)
    for st in trace["steps"]:
        sim.execute(st)
        if sim.violations:
            break
    sim.finish()
    r = _result(sim, trace)
    r["signature"] = core.digest(["scale", task])
    r["stats"].setdefault("probes", {})["scale_cases"] = 1
    return r


def run_scale(seed, idx, tier, pristine=None):
    from histsim.c10 import Sim

    tasks = scale_tasks()
    task = tasks[idx % len(tasks)]
    if task["det"] is None:
        return run_scale_scorer(task, seed, idx, pristine)
    rng = core.make_rng(seed, "C10", 4 * 10**6 + idx)
    kind = task["det"]
    pname, params, _ = SWEEP_DETECTORS[kind]

    def mk(did, n, p, fam, like=None):
        x = np.round(rng.normal(size=(n, p)), 2)
        for _ in range(3):
            a = int(rng.integers(3, n - 12))
            x[a : a + int(rng.integers(4, 12)), int(rng.integers(p))] += float(rng.choice([-5.0, 4.0, 6.0]))
        x[int(rng.integers(n)), int(rng.integers(p))] += 9.0
        if like is not None:
            # near twin: head and tail rows of the sibling, another middle
            y = np.array(like, dtype=float)
            y[n // 3 : 2 * n // 3] = x[n // 3 : 2 * n // 3]
            x = y
        return {"id": did, "family": fam, "container": "df", "dtype": "float64", "index": {"kind": "range", "start": 0}, "columns": [f"v{j}" for j in range(p)], "values": values_to_json(x)}

    (n1, p1), (n2, p2) = task["sizes"]
    if kind == "CircularBinarySegmentation":
        # every cut refits the local score: keep the series just beyond the interval length
        n1, n2 = (118, 112) if n1 < n2 else (112, 118)
    sp = dict(params)
    sp.update(SCALE_PARAMS[kind])
    if task["scorer"] == "pelt_l2":
        sp[pname] = {"__cls__": "PELT", "params": {"cost": L2N, "penalty_scale": 1.0, "min_segment_length": 2}}
    else:
        sp[pname] = json_copy(SWEEP_SCORERS[task["scorer"]])
    d0 = mk(0, n1, p1, 0)
    d1 = mk(1, n1, p1, 0, like=d0["values"])
    d2 = mk(2, n2, p2, 1)
    d3 = mk(3, n2, p2, 1)
    k = int(rng.integers(6, 30))
    chunk_vals = np.round(rng.normal(size=(k, p2)), 2)
    # a very small update (a row or two with an extreme value) on a long history
    tiny_vals = np.round(rng.normal(size=(int(rng.integers(1, 3)), p2)), 2) + 25.0
    trace = {
        "property": "C10",
        "seed": int(seed),
        "run": int(idx),
        "tier": "scale",
        "config": {"routes": ["clone"], "pristine": True, "scale": task},
        "datasets": [d0, d1, d2, d3],
        "objects": [{"name": "d0", "spec": {"__cls__": kind, "params": sp}}],
        "steps": [
            {"op": "fit", "c": 0, "d": 0},
            {"op": "predict", "c": 0, "d": 0},
            {"op": "transform_scores", "c": 0, "d": 1},
            {"op": "predict", "c": 0, "d": 0},
            {"op": "fit", "c": 0, "d": 2},
            {"op": "predict", "c": 0, "d": 3},
            {"op": "transform", "c": 0, "d": 1},
            {"op": "update", "c": 0, "like": 2, "values": values_to_json(tiny_vals)},
            {"op": "transform_scores", "c": 0, "d": 2, "scribble": True},
            {"op": "update", "c": 0, "like": 2, "values": values_to_json(chunk_vals)},
            {"op": "transform_scores", "c": 0, "d": 2},
            {"op": "predict", "c": 0, "d": 0},
        ],
    }
    sim = Sim(trace, pristine)
    for st in trace["steps"]:
        sim.execute(st)
        if sim.violations:
            break
    sim.finish()
    r = _result(sim, trace)
    r["signature"] = core.digest(["scale", task])
    r["stats"].setdefault("probes", {})["scale_cases"] = 1
    return r
