"""Process bootstrap: pinned hash seed, fresh bytecode cache, /repo first on sys.path.

Must be imported (and ``bootstrap()`` called) before anything from skchange is imported.
"""

import atexit
import os
import shutil
import sys
import tempfile
import warnings

REPO = os.environ.get("VERIF_REPO", "/repo")
VERIF = os.path.dirname(os.path.dirname(os.path.abspath(__file__)))


def bootstrap(reexec=True):
    """Pin PYTHONHASHSEED (by re-exec), isolate bytecode cache, put /repo first."""
    want = os.environ.get("VERIF_HASHSEED", "0")
    if reexec and (
        os.environ.get("PYTHONHASHSEED") != want or not os.environ.get("VERIF_BOOTED")
    ):
        env = dict(os.environ)
        env["PYTHONHASHSEED"] = want
        env["VERIF_BOOTED"] = "1"
        for k in ("OMP_NUM_THREADS", "OPENBLAS_NUM_THREADS", "MKL_NUM_THREADS"):
            env[k] = "1"
        env.pop("VERIF_PYCACHE_SET", None)
        os.execve(sys.executable, [sys.executable] + sys.argv, env)
    warnings.filterwarnings("ignore")
    # third-party packages first, with their normal bytecode cache (fast start-up)
    import numpy  # noqa: F401
    import pandas  # noqa: F401
    import scipy.stats  # noqa: F401
    import skbase  # noqa: F401
    import sktime.base  # noqa: F401
    import sktime.utils.validation.series  # noqa: F401
    import sktime.utils.dependencies  # noqa: F401

    # fresh, empty bytecode cache from here on: every skchange module is compiled from
    # the working tree's source, a stale .pyc can never be picked up.
    if not os.environ.get("VERIF_PYCACHE_SET"):
        d = tempfile.mkdtemp(prefix="histsim-pyc-")
        sys.pycache_prefix = d
        os.environ["VERIF_PYCACHE_SET"] = d
        pid = os.getpid()

        def _rm():
            if os.getpid() == pid:
                shutil.rmtree(d, ignore_errors=True)

        atexit.register(_rm)
    else:
        sys.pycache_prefix = os.environ["VERIF_PYCACHE_SET"]
    if REPO in sys.path:
        sys.path.remove(REPO)
    sys.path.insert(0, REPO)
    if VERIF not in sys.path:
        sys.path.insert(1, VERIF)
    import skchange  # noqa: F401

    sk = os.path.dirname(os.path.abspath(skchange.__file__))
    if not sk.startswith(os.path.abspath(REPO)):
        raise RuntimeError(f"skchange imported from {sk}, expected under {REPO}")
    return sk
