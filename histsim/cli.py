"""Command implementations behind check.py."""

import hashlib
import json
import os
import subprocess
import sys
import time

from histsim import boot, core, runner

VERIF = boot.VERIF

COMPONENTS = {
    "real": [
        "all of /repo/skchange (detectors, scorers, costs, base classes, validation, numba fallbacks) from the current working tree",
        "sktime / skbase base classes (set_params, reset, clone, check_is_fitted)",
        "numpy, pandas, scipy",
    ],
    "stub": [
        "data source (seeded dataset pool, update chunks)",
        "AbsDevCost (user-defined cost, fails on demand)",
        "ScriptedDetector (user-defined change detector, fails on demand)",
        "prange (order-permuting replacement of the parallel-loop seam, C01 only)",
    ],
}


def do_replay(prop, path):
    mod = runner.get_module(prop)
    core.register_classes()
    core.install_call_budget()
    trace = json.load(open(path))
    if trace.get("hashseeds") and not os.environ.get("VERIF_INNER"):
        return replay_across_interpreters(prop, path, trace)
    pristine = None
    handler = getattr(mod, "PRISTINE_HANDLER", None)
    if handler is not None:
        from histsim.pristine import PristineServer

        pristine = PristineServer(handler)
    try:
        res = mod.replay(trace, pristine)
    finally:
        if pristine is not None:
            pristine.close()
    print(f"replay property={prop} steps={len(trace['steps'])} digest={res['digest']}")
    known = runner.load_known()
    rc = 0
    for v in res["violations"]:
        k = runner.match_known(prop, v, known)
        print(json.dumps({k2: v[k2] for k2 in ("class", "client_kind", "client", "op", "step", "fault", "detail")}, default=str)[:3000])
        if k is not None:
            print(f"KNOWN-FINDING: property={prop} {k['what']}")
        else:
            print(f"VIOLATION property={prop} replay={os.path.abspath(path)}")
            rc = 1
    if not res["violations"]:
        print("no violation on replay")
    return rc


def replay_across_interpreters(prop, path, trace):
    """Replay files of class interpreter_dependence: the same history must give the same
    event digest in fresh interpreters with different PYTHONHASHSEED values."""
    digs = {}
    for hs in trace["hashseeds"]:
        env = dict(os.environ)
        env.pop("VERIF_BOOTED", None)
        env["VERIF_INNER"] = "1"
        env["VERIF_HASHSEED"] = str(hs)
        env["PYTHONHASHSEED"] = str(hs)
        p = subprocess.run([sys.executable, os.path.join(VERIF, "check.py"), prop, "--replay", path], capture_output=True, text=True, env=env, timeout=900)
        first = [ln for ln in p.stdout.splitlines() if ln.startswith("replay property=")]
        digs[str(hs)] = first[0].split("digest=")[1] if first else f"rc={p.returncode}"
    print(f"replay property={prop} across interpreters: {json.dumps(digs)}")
    if len(set(digs.values())) > 1:
        print(f"VIOLATION property={prop} replay={os.path.abspath(path)}")
        return 1
    print("no violation on replay")
    return 0


def interpreter_agreement(prop, seed, n, args):
    """Thorough tier: a sample of runs in fresh interpreters under other hash seeds must
    give identical event digests (outputs may not depend on hash-ordered iteration)."""
    outs = {}
    for hs in ("0", "271828", "31337"):
        env = dict(os.environ)
        env.pop("VERIF_BOOTED", None)
        env["VERIF_HASHSEED"] = hs
        env["PYTHONHASHSEED"] = hs
        env["VERIF_SEED"] = str(seed)
        cmd = [sys.executable, os.path.join(VERIF, "check.py"), prop, "--runs", str(n), "--digest-only", "--tier", "quick"]
        if args.workers:
            cmd += ["--workers", str(args.workers)]
        p = subprocess.run(cmd, capture_output=True, text=True, env=env, timeout=3600)
        line = [ln for ln in p.stdout.splitlines() if ln.startswith("{")]
        if not line:
            return [{"harness_error": f"interpreter agreement run failed (hashseed {hs}): {p.stderr[-800:]}", "run": -1}], {}
        outs[hs] = json.loads(line[-1])
    ref = outs["0"]
    results = []
    for hs, d in outs.items():
        diff = sorted(int(k) for k in ref if d.get(k) != ref[k])
        if diff:
            mod = runner.get_module(prop)
            res = mod.run_one(seed, diff[0], "quick", None)
            tr = dict(res["trace"], hashseeds=[0, int(hs)])
            v = {"class": "interpreter_dependence", "client_kind": None, "client": None, "op": None, "step": 0, "fault": None, "detail": {"runs_that_differ": diff[:10], "hashseeds": [0, int(hs)]}}
            results.append({"violations": [v], "stats": {}, "digest": "", "signature": "interp", "nontrivial": False, "run": diff[0], "nsteps": len(tr["steps"]), "trace": tr})
            break
    return results, {"two_interpreter_agreement": {"runs": n, "hashseeds": list(outs), "agree": not results}}


def do_check(prop, tier, seed, args):
    t0 = time.time()
    mod = runner.get_module(prop)
    core.register_classes()
    core.install_call_budget()
    n_runs = args.runs or mod.TIERS[tier]["runs"]
    indices = list(range(args.start, args.start + n_runs))
    sample_idx = set(indices[:3])
    results = runner.run_batch(prop, seed, tier, indices, workers=args.workers, sample_idx=sample_idx, per_run_guard=mod.TIERS[tier].get("guard", 120))
    extra = {}
    extra_fn = getattr(mod, "extra_checks", None)
    extra_results = []
    results_all = list(results)
    if extra_fn is not None and not args.digest_only:
        extra_results, extra = extra_fn(seed, tier, args)
        results_all += extra_results
    if tier == "thorough" and not args.digest_only and not args.runs:
        r2, e2 = interpreter_agreement(prop, seed, 300, args)
        results_all += r2
        extra.update(e2)
    herr = [r for r in results_all if "harness_error" in r]
    if args.digest_only:
        print(json.dumps({str(r["run"]): r.get("digest", "ERR") for r in results}, sort_keys=True))
        return 2 if herr else 0
    stats = {}
    sigs = set()
    sigs_all = set()
    viol = []
    samples = []
    total_steps = 0
    for r in results_all:
        if "harness_error" in r:
            continue
        runner.merge_stats(stats, r["stats"])
        sigs_all.add(r["signature"])
        if r["nontrivial"]:
            sigs.add(r["signature"])
        total_steps += r["nsteps"]
        if r["violations"]:
            viol.append(r)
        if "trace" in r and len(samples) < 3 and not r["violations"]:
            samples.append(runner.abbreviate(r["trace"]))
        if r.get("sample") is not None and len(samples) < 4:
            samples.append(r["sample"])
    wall = time.time() - t0
    n_ok = len([r for r in results_all if "harness_error" not in r])

    # ---- violations: minimise, save, confirm in a fresh interpreter
    reported = []
    known_lines = []
    known = runner.load_known()
    seen_keys = set()
    pristine = None
    if viol:
        handler = getattr(mod, "PRISTINE_HANDLER", None)
        if handler is not None:
            from histsim.pristine import PristineServer

            pristine = PristineServer(handler)
    try:
        for r in viol:
            v = r["violations"][0]
            key = runner.vkey(v)
            if key in seen_keys or len(seen_keys) >= 4:
                continue
            seen_keys.add(key)
            trace = r["trace"]
            if not args.no_minimise and v["class"] != "interpreter_dependence":
                trace, v, _ = runner.minimise(prop, trace, v, pristine)
            trace = dict(trace)
            trace["violation"] = {k: v[k] for k in ("class", "client_kind", "client", "op", "step", "fault", "detail")}
            d = os.path.join(VERIF, "replays", prop)
            os.makedirs(d, exist_ok=True)
            body = json.dumps(trace, sort_keys=True, default=str)
            name = f"{seed}-{r['run']}-{hashlib.sha256(body.encode()).hexdigest()[:10]}.json"
            path = os.path.join(d, name)
            with open(path, "w") as f:
                f.write(json.dumps(trace, indent=1, sort_keys=True, default=str))
            rc, out = runner.replay_in_fresh_interpreter(prop, path)
            k = runner.match_known(prop, v, known)
            if k is not None:
                known_lines.append(f"KNOWN-FINDING: property={prop} {k['what']}")
                continue
            if rc == 1 and "VIOLATION" in out:
                reported.append((path, v))
            elif rc == 0 and "KNOWN-FINDING" in out:
                known_lines.append(f"KNOWN-FINDING: property={prop} (matched on replay) {path}")
            else:
                herr.append({"harness_error": f"violation did not reproduce in a fresh interpreter: {path}\n{out[-2000:]}", "run": r["run"]})
    finally:
        if pristine is not None:
            pristine.close()

    cov = {
        "evaluations": int(n_ok),
        "distinct_nontrivial": int(len(sigs)),
        "rule": mod.RULE,
        "samples": samples,
        "steps": int(stats.get("steps", total_steps)),
        "comparisons": int(stats.get("comparisons", 0)),
        "distinct_interleavings": int(len(sigs_all)),
        "distinct_interleavings_measure": "distinct sequences of (client class, operation, dataset relation, fired fault kind) over whole histories",
        "faults_fired": stats.get("faults_fired", {}),
        "faults_planned": stats.get("faults_planned", {}),
        "probes": stats.get("probes", {}),
        "compared_by_op": stats.get("compared_by_op", {}),
        "relaxation_counters": {k: stats.get(k, 0) for k in ("skipped_unspecified", "tolerant_pass", "twin_nofit", "twin_nobuild", "unspec_client_steps", "recoveries_compared", "hangs", "illconditioned_skip", "rows_judged", "rows_either", "rows_unjudged", "batches", "batches_raised", "independence_checks", "isolation_checks", "shadow_comparisons", "anomalies_reported", "adjacent_flagged_pairs", "boundary_ties") if k in stats},
        "simulated_time": {
            "note": "the system has no clock; the honest measure is logical steps and samples streamed through update",
            "logical_steps": int(stats.get("steps", total_steps)),
            "samples_streamed_through_update": int(stats.get("samples_streamed", 0)),
        },
        "runs_per_hour": round(n_ok / wall * 3600) if wall > 0 else 0,
        "seeds_per_hour": round(n_ok / wall * 3600) if wall > 0 else 0,
        "seeds_note": "every run has its own PRNG stream derived from (VERIF_SEED, property, run index): one run = one seed",
        "seeds": {"VERIF_SEED": seed, "run_indices": [indices[0], indices[-1]] if indices else []},
        "components": COMPONENTS,
        "distinct_interrupt_sites": len(stats.get("interrupt_sites", {})),
        "exhaustive": False,
    }
    cov.update(extra)
    payload = {
        "property_id": prop,
        "tier": tier,
        "seed": seed,
        "level": "exploration",
        "coverage": cov,
        "assumptions": mod.ASSUMPTIONS,
        "wall_s": round(wall, 2),
        "violations": len(reported),
        "known_findings_reported": known_lines,
        "harness_errors": len(herr),
    }
    if not args.no_evidence:
        runner.write_evidence(prop, payload)
    print(
        f"{prop} tier={tier} seed={seed} histories={n_ok} steps={cov['steps']} comparisons={cov['comparisons']} "
        f"distinct_nontrivial={len(sigs)} faults_fired={json.dumps(cov['faults_fired'])} wall={wall:.1f}s"
    )
    for line in sorted(set(known_lines)):
        print(line)
    for path, v in reported:
        print(json.dumps({k2: v[k2] for k2 in ("class", "client_kind", "op", "fault", "detail")}, default=str)[:1500])
        print(f"VIOLATION property={prop} replay={path}")
    if herr:
        for h in herr[:5]:
            print("HARNESS-ERROR:", h["harness_error"][:3000], file=sys.stderr)
        if not reported:
            return 2
    return 1 if reported else 0


def selftest_determinism(args, seed):
    """Each property: N runs, digests must agree across fresh interpreters, hash seeds and
    worker counts."""
    props = args.props.split(",")
    n = args.seeds
    bad = 0
    for prop in props:
        outs = []
        for hs, workers in (("0", 16), ("0", 1 if n <= 60 else 3), ("12345", 16), ("987", 5)):
            env = dict(os.environ)
            env.pop("VERIF_BOOTED", None)
            env["VERIF_HASHSEED"] = hs
            env["PYTHONHASHSEED"] = hs
            cmd = [sys.executable, os.path.join(VERIF, "check.py"), prop, "--runs", str(n), "--digest-only", "--workers", str(workers)]
            p = subprocess.run(cmd, capture_output=True, text=True, env=env, timeout=3600)
            line = [ln for ln in p.stdout.splitlines() if ln.startswith("{")]
            if p.returncode != 0 or not line:
                print(f"{prop}: digest run failed (hashseed={hs}, workers={workers}) rc={p.returncode}\n{p.stderr[-1500:]}")
                bad += 1
                continue
            outs.append((hs, workers, json.loads(line[-1])))
        ref = outs[0][2] if outs else {}
        for hs, workers, d in outs[1:]:
            diff = [k for k in ref if d.get(k) != ref[k]]
            if diff:
                bad += 1
                print(f"{prop}: NONDETERMINISM hashseed={hs} workers={workers}: {len(diff)} of {len(ref)} runs differ, e.g. run {diff[:5]}")
        print(f"{prop}: {len(ref)} runs x {len(outs)} configurations compared")
    print("determinism self-test:", "FAILED" if bad else "ok")
    return 2 if bad else 0


REQUIRED = {
    "C10": {
        "probes": ["compared_after_sharer_refit", "twin_dataset_switch_compared", "compared_after_interrupted_output", "compared_on_update_lineage", "compared_after_recovery", "set_params_on_shared_object", "nested_set_params", "route_clone_compared", "route_setp_compared", "pristine_compared", "evaluate_compared", "sharer_ran_on_same_data", "fitted_params_compared", "update_ok", "sweep_points", "config_pairs", "dataset_mutated_in_place", "compared_exception_outcome", "set_params_rejected", "torn_fit_observed", "y_passed", "shape_cases", "update_with_overlapping_index", "continued_with_copy", "scale_cases", "compared_after_overwrite_either_way", "alloc_fail_propagated"],
        "faults": ["bad_data", "singular", "interrupt", "flaky", "bad_cuts"],
    },
    "C01": {"probes": ["prange_permuted", "refit_on_other_data", "sharing_detector_ran", "param_changed", "data_mutated_in_place", "step_on_second_instance", "exhaustive_interval_cases", "narrow_cuts_dtype", "cuts_buffer_reused", "scale_interval_rows"], "faults": ["singular", "interrupt", "bad_cuts", "bad_param"]},
    "C17": {"probes": ["U_set_params", "U_fit_after_A_fit", "A_update_ok", "A_recovered_by_fit", "compared_after_failed_predict", "compared_after_recovery", "compared_on_update_lineage", "nonempty_expected", "exhaustive_script_cases", "dataset_mutated_in_place", "transform_judged", "alloc_fail_propagated"], "faults": ["bad_data", "interrupt", "flaky"]},
}


def selftest_probes(args, seed):
    """Reach self-test: after a quick run every rare-condition probe and every fault kind
    must have fired at least once (a probe stuck at zero means the workload or fault mix
    must change)."""
    bad = 0
    for prop in args.props.split(","):
        env = dict(os.environ)
        env.pop("VERIF_BOOTED", None)
        p = subprocess.run([sys.executable, os.path.join(VERIF, "check.py"), prop, "--tier", "quick"], capture_output=True, text=True, env=env, timeout=3600)
        if p.returncode != 0:
            print(f"{prop}: quick check exit {p.returncode}\n{p.stdout[-800:]}{p.stderr[-800:]}")
            bad += 1
            continue
        ev = json.load(open(os.path.join(VERIF, "evidence", f"{prop}.json")))["coverage"]
        zero = [k for k in REQUIRED[prop]["probes"] if not ev["probes"].get(k)] + ["fault:" + k for k in REQUIRED[prop]["faults"] if not ev["faults_fired"].get(k)]
        print(f"{prop}: {len(REQUIRED[prop]['probes'])} probes, {len(REQUIRED[prop]['faults'])} fault kinds; stuck at zero: {zero or 'none'}")
        bad += len(zero)
    print("probe self-test:", "FAILED" if bad else "ok")
    return 2 if bad else 0
