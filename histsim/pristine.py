"""Pristine-process oracle.

A server process is forked from a worker *before the worker has executed a single
skchange call*.  For every request it forks a child that builds a twin from a spec,
fits it on the training lineage, performs one call and sends back the canonical
outcome.  The child has therefore no history at all — not even process-global history
(module-level caches, class attributes, default-argument instances) that an in-process
twin would share with the system under test.
"""

import os
import pickle
import signal
import struct
import sys


def _send(fd, obj):
    b = pickle.dumps(obj, protocol=pickle.HIGHEST_PROTOCOL)
    os.write(fd, struct.pack("<Q", len(b)))
    off = 0
    while off < len(b):
        off += os.write(fd, b[off : off + 65536])


def _read_exact(fd, n):
    chunks = []
    while n > 0:
        c = os.read(fd, min(n, 1 << 20))
        if not c:
            raise EOFError
        chunks.append(c)
        n -= len(c)
    return b"".join(chunks)


def _recv(fd):
    (n,) = struct.unpack("<Q", _read_exact(fd, 8))
    return pickle.loads(_read_exact(fd, n))


class PristineServer:
    def __init__(self, handler):
        """handler(request) -> response, executed in a fresh grandchild per request."""
        self.handler = handler
        self.req_r, self.req_w = os.pipe()
        self.res_r, self.res_w = os.pipe()
        self.owner = os.getpid()
        pid = os.fork()
        if pid == 0:
            # server
            try:
                os.close(self.req_w)
                os.close(self.res_r)
                sys.settrace(None)
                signal.signal(signal.SIGINT, signal.SIG_IGN)
                self._serve()
            finally:
                os._exit(0)
        os.close(self.req_r)
        os.close(self.res_w)
        self.pid = pid

    def _serve(self):
        while True:
            try:
                req = _recv(self.req_r)
            except EOFError:
                return
            if req is None:
                return
            cpid = os.fork()
            if cpid == 0:
                try:
                    try:
                        res = ("ok", self.handler(req))
                    except BaseException as e:  # noqa: BLE001
                        res = ("harness_error", f"{type(e).__name__}: {e}")
                    _send(self.res_w, res)
                finally:
                    os._exit(0)
            _, status = os.waitpid(cpid, 0)
            if status != 0:
                _send(self.res_w, ("harness_error", f"pristine child status {status}"))

    def ask(self, req):
        _send(self.req_w, req)
        kind, val = _recv(self.res_r)
        if kind != "ok":
            raise RuntimeError(f"pristine oracle failed: {val}")
        return val

    def close(self):
        if os.getpid() != self.owner:
            return
        try:
            _send(self.req_w, None)
        except OSError:
            pass
        try:
            os.close(self.req_w)
            os.close(self.res_r)
        except OSError:
            pass
        try:
            os.waitpid(self.pid, 0)
        except ChildProcessError:
            pass
