"""C17 — StatThresholdAnomaliser flags exactly the out-of-range segments, and never
fits or alters the detector object the user passed in.

Two parties hold references to one detector object: the user U (who fits it, predicts
with it, reconfigures it) and the anomaliser A wrapping it.  A seeded scheduler
interleaves their calls with faults (failing stub detector, bad data, interrupts at a
skchange source line inside A's calls).  Oracles: (a) a segments-and-statistic reference
model for A.predict, (b) isolation — a deep fingerprint of U's object is unchanged by
every step of A, and U's own outputs equal those of a shadow detector that saw only U's
steps.  See DESIGN 4.3.
"""

import itertools
import json

import numpy as np
import pandas as pd

from histsim import core
from histsim.core import FAULTS, LineTracer, SimInterrupt, canon, concat_lineage, dataset_object, fingerprint_arg

UNSPEC = "UNSPEC"


def deep_fp(o, depth=0, seen=None):
    """Deep, address-free fingerprint of an object's state."""
    seen = seen if seen is not None else set()
    if depth > 8:
        return "deep"
    if isinstance(o, (pd.DataFrame, pd.Series, np.ndarray, pd.Index)):
        return canon(o)
    if isinstance(o, (int, float, str, bool, type(None), np.integer, np.floating, np.bool_)):
        return canon(o)
    if isinstance(o, (list, tuple)):
        return (type(o).__name__, tuple(deep_fp(v, depth + 1, seen) for v in o))
    if isinstance(o, dict):
        return ("dict", tuple((str(k), deep_fp(v, depth + 1, seen)) for k, v in sorted(o.items(), key=lambda kv: str(kv[0]))))
    if callable(o) and not hasattr(o, "get_params"):
        return ("fn", getattr(o, "__name__", type(o).__name__))
    if hasattr(o, "__dict__"):
        if id(o) in seen:
            return ("cycle", type(o).__name__)
        seen.add(id(o))
        return ("obj", type(o).__name__, tuple((k, deep_fp(v, depth + 1, seen)) for k, v in sorted(vars(o).items())))
    r = repr(o)
    return ("repr", type(o).__name__, r if " at 0x" not in r else "")


def call(obj, op, arg):
    core.budget_start()
    try:
        if op == "fit":
            obj.fit(arg)
            return ("ok", None, None)
        if op == "update":
            obj.update(arg)
            return ("ok", None, None)
        raw = getattr(obj, op)(arg)
        return ("ok", canon(raw), raw)
    except (SimInterrupt, core.SimAllocFail):
        return ("int", None, None)
    except core.CallHang:
        return ("hang", None, None)
    except Exception as e:  # noqa: BLE001
        return ("exc", type(e).__name__, None)
    finally:
        core.budget_stop()


def first_column_values(X):
    if isinstance(X, pd.Series):
        return X.to_numpy()
    return X.iloc[:, 0].to_numpy()


def expected_anomalies(cpts, x, stat, lo, hi):
    """Reference model: segments delimited by the changepoints, each flagged iff its
    statistic is below lo or above hi.  Returns (must, may): intervals that must be
    reported and intervals whose statistic ties with a bound within rounding."""
    n = len(x)
    b = [0] + [int(c) for c in cpts] + [n]
    must, may = [], []
    for s, e in zip(b[:-1], b[1:]):
        if e <= s:
            continue
        seg = x[s:e]
        v = stat(seg)
        exact = bool(np.all(seg == np.round(seg)) and np.abs(seg).max() < 2**40) if len(seg) else True
        tol = 0.0 if exact else 1e-9 * max(1.0, abs(lo), abs(hi), float(np.abs(seg).max()))
        if v < lo - tol or v > hi + tol:
            must.append((s, e))
        elif v < lo + tol or v > hi - tol:
            if v < lo or v > hi or tol > 0:
                may.append((s, e))
    return must, may


class Sim:
    def __init__(self, trace):
        core.register_classes()
        self.trace = trace
        self.ds_spec = {d["id"]: d for d in trace["datasets"]}
        self.ds_obj = {d["id"]: dataset_object(d) for d in trace["datasets"]}
        self.U = core.build(trace["U"])
        self.shadow = core.build(trace["U"])
        self.A = core.build(trace["A"], {"U": self.U})
        self.kind_U = type(self.U).__name__
        self.lin = None
        self.uspec_at_fit = None
        self.needs_fit = False
        self.prev_a_failed = False
        self.prev_pred_fault = False
        self.recovering = False
        self.events = []
        self.violations = []
        self.sig = []
        self.nontrivial = False
        self.stats = {
            "steps": 0,
            "comparisons": 0,
            "isolation_checks": 0,
            "shadow_comparisons": 0,
            "anomalies_reported": 0,
            "adjacent_flagged_pairs": 0,
            "boundary_ties": 0,
            "faults_fired": {"bad_data": 0, "interrupt": 0, "flaky": 0},
            "probes": {},
            "samples_streamed": 0,
        }

    def probe(self, name, k=1):
        self.stats["probes"][name] = self.stats["probes"].get(name, 0) + k

    def violate(self, cls, op, step, fault, detail):
        self.violations.append({"class": cls, "client_kind": self.kind_U, "client": "A" if op.startswith("A") else "U", "op": op, "step": step, "fault": fault, "detail": detail})

    def arg_for(self, st):
        if "values" in st:
            like = self.ds_spec[st["like"]]
            ds = dict(like, values=st["values"])
            start = like["index"]["start"] + len(like["values"])
            cont = False
            if isinstance(self.lin, list) and self.lin[0][1] == st["like"]:
                start = like["index"]["start"] + sum(len(c) for c, _ in self.lin)
                cont = True
            return dataset_object(ds, index_start=start), None, cont
        return self.ds_obj[st["d"]], st["d"], False

    def execute(self, st):
        i = len(self.events)
        self.stats["steps"] += 1
        op = st["op"]
        ev = {"i": i, "op": op}
        if op == "mutate":
            self.step_mutate(st, ev)
        elif op.startswith("U_"):
            self.step_U(st, ev, i)
        else:
            self.step_A(st, ev, i)
        self.events.append(ev)
        self.sig.append((op, ev.get("res"), ev.get("fired")))
        return ev

    def step_mutate(self, st, ev):
        """The user overwrites one of their data objects in place (a reused buffer)."""
        obj = self.ds_obj.get(st["d"])
        if obj is None or self.ds_spec[st["d"]].get("bad"):
            ev["noop"] = True
            return
        new = np.array(st["values"], dtype=float)
        if isinstance(obj, pd.Series):
            obj.iloc[:] = new.reshape(-1)
        else:
            obj.iloc[:, :] = new.reshape(obj.shape)
        if isinstance(self.lin, list) and any(ch is obj for ch, _ in self.lin):
            self.lin = UNSPEC
        self.probe("dataset_mutated_in_place")
        ev["res"] = "ok"

    # ---------------------------------------------------------------- user's steps
    def step_U(self, st, ev, i):
        op = st["op"][2:]
        if op == "set_params":
            val = core.build(st["value"])
            try:
                self.U.set_params(**{st["path"]: val})
                ra = "ok"
            except Exception as e:  # noqa: BLE001
                ra = "exc:" + type(e).__name__
            try:
                self.shadow.set_params(**{st["path"]: core.build(st["value"])})
                rb = "ok"
            except Exception as e:  # noqa: BLE001
                rb = "exc:" + type(e).__name__
            ev["res"] = ra
            if ra != rb:
                self.violate("user_detector_output_differs", "U_set_params", i, None, {"user": ra, "shadow": rb})
            if isinstance(self.lin, list):
                self.needs_fit = True
            self.probe("U_set_params")
            return
        arg, _, _ = self.arg_for(st)
        fp = fingerprint_arg(arg)
        a = call(self.U, op, arg)
        b = call(self.shadow, op, arg)
        ev["res"] = a[0] if a[0] != "exc" else "exc:" + a[1]
        ev["out"] = core.digest(a[1]) if a[0] == "ok" and a[1] is not None else None
        self.stats["shadow_comparisons"] += 1
        if a[:2] != b[:2] and "hang" not in (a[0], b[0]):
            self.violate("user_detector_output_differs", "U_" + op, i, None, {"user": _d(a), "shadow_that_saw_only_user_steps": _d(b)})
        if fingerprint_arg(arg) != fp:
            self.violate("arg_mutated", "U_" + op, i, None, "caller's data modified")
        if isinstance(self.lin, list) and op == "fit":
            self.probe("U_fit_after_A_fit")

    # ---------------------------------------------------------------- anomaliser's steps
    def step_A(self, st, ev, i):
        op = st["op"][2:]
        fault = st.get("fault")
        fkind = fault["kind"] if fault else None
        before = deep_fp(self.U)
        if op == "clone":
            try:
                self.A = self.A.clone()
                # the clone wraps a *copy* of U: from here on the user's object is no
                # longer wrapped; keep checking that it stays untouched
                self.lin, self.uspec_at_fit, self.needs_fit = None, None, False
                ev["res"] = "ok"
            except Exception as e:  # noqa: BLE001
                ev["res"] = "exc:" + type(e).__name__
            self.check_isolation(before, "A_clone", i, fkind)
            return
        if op == "set_params":
            try:
                self.A.set_params(**{st["path"]: core.build(st["value"])})
                ev["res"] = "ok"
                self.lin, self.uspec_at_fit, self.needs_fit = None, None, False
            except Exception as e:  # noqa: BLE001
                ev["res"] = "exc:" + type(e).__name__
                self.lin = UNSPEC
            self.check_isolation(before, "A_set_params", i, fkind)
            return
        arg, ds_id, cont = self.arg_for(st)
        fp = fingerprint_arg(arg)
        try:
            wrapped = self.A.get_params(deep=False)["change_detector"]
            uspec_now = core.spec_json(wrapped)
        except Exception:  # noqa: BLE001
            uspec_now = None
        fired = None
        if fkind == "interrupt":
            tr = LineTracer(int(fault["at"]), alloc=bool(fault.get("alloc")))
            res = tr.run(lambda: call(self.A, op, arg))
            if tr.fired_at is not None and fault.get("alloc"):
                if res[0] == "exc":
                    res = ("int", None, None)
                self.probe("alloc_fail_swallowed" if res[0] == "ok" else "alloc_fail_propagated")
            if res[0] == "int":
                fired = "interrupt"
        elif fkind == "flaky":
            FAULTS.arm(fault["site"], int(fault["at"]))
            try:
                res = call(self.A, op, arg)
            finally:
                if FAULTS.fired:
                    fired = "flaky"
                FAULTS.disarm()
                FAULTS.fired = False
        else:
            res = call(self.A, op, arg)
        if res[0] == "hang":
            fired = "hang"
        if fired in self.stats["faults_fired"]:
            self.stats["faults_fired"][fired] += 1
        bad = self.ds_spec.get(ds_id, {}).get("bad") if ds_id is not None else None
        if bad and res[0] == "exc":
            self.stats["faults_fired"]["bad_data"] += 1
        ev["res"] = res[0] if res[0] != "exc" else "exc:" + res[1]
        ev["out"] = core.digest(res[1]) if res[0] == "ok" and res[1] is not None else None
        if fired:
            ev["fired"] = fired
        if fingerprint_arg(arg) != fp:
            self.violate("arg_mutated", "A_" + op, i, fkind, "caller's data modified")
        self.check_isolation(before, "A_" + op, i, fired or fkind)

        if op == "fit":
            if res[0] == "ok" and not fired:
                self.lin = [(arg, ds_id)]
                self.uspec_at_fit = uspec_now
                self.needs_fit = False
                if self.prev_a_failed:
                    self.probe("A_recovered_by_fit")
                    self.recovering = True
                self.prev_a_failed = False
            else:
                self.lin = UNSPEC
                self.prev_a_failed = True
            return
        if op == "update":
            self.stats["samples_streamed"] += len(arg)
            if isinstance(self.lin, list) and cont and res[0] == "ok" and not fired:
                self.lin = self.lin + [(arg, None)]
                self.uspec_at_fit = uspec_now
                self.needs_fit = False
                self.probe("A_update_ok")
            elif self.lin is None and res[0] == "exc":
                pass
            else:
                self.lin = UNSPEC if self.lin is not None or res[0] == "ok" else None
            return
        # predict / transform
        if fired:
            self.prev_pred_fault = True
            return
        if res[0] == "exc" and (self.ds_spec.get(ds_id, {}).get("bad") if ds_id is not None else False):
            self.prev_pred_fault = True
        if not isinstance(self.lin, list) or self.needs_fit or self.uspec_at_fit is None:
            ev["cmp"] = "skip"
            return
        if op == "transform":
            self.compare_transform(arg, ds_id, res, ev, i, fkind)
        else:
            self.compare_predict(arg, res, ev, i, fkind)

    def check_isolation(self, before, op, i, fkind):
        self.stats["isolation_checks"] += 1
        after = deep_fp(self.U)
        if after != before:
            diff = _first_diff(before, after)
            self.violate("wrapped_detector_altered", op, i, fkind, {"what": "the detector object passed by the user changed state during a call on the anomaliser", "first_difference": diff})

    def compare_predict(self, arg, res, ev, i, fkind):
        # reference: a fresh detector with the hyper-parameters the wrapped detector had
        # when A was fitted, fitted on A's training data
        try:
            fresh = core.build(json.loads(self.uspec_at_fit))
        except Exception:  # noqa: BLE001
            ev["cmp"] = "nobuild"
            return
        rf = call(fresh, "fit", concat_lineage([c for c, _ in self.lin]))
        if rf[0] != "ok":
            ev["cmp"] = "nofit"
            return
        rp = call(fresh, "predict", arg)
        if rp[0] == "hang":
            return
        self.stats["comparisons"] += 1
        self.nontrivial = True
        ev["cmp"] = "eq"
        p = self.A.get_params(deep=False)
        if rp[0] != "ok":
            if res[0] == "ok":
                ev["cmp"] = "NE"
                self.violate("anomalies_mismatch", "A_predict", i, fkind, {"why": "wrapped detector cannot predict on this input but the anomaliser returned a result", "reference_error": rp[1]})
            return
        if res[0] != "ok":
            if isinstance(arg, (pd.DataFrame, pd.Series)) and not self.has_nan(arg):
                ev["cmp"] = "NE"
                self.violate("anomalies_mismatch", "A_predict", i, fkind, {"why": "anomaliser raised although the wrapped detector predicts fine", "error": res[1]})
            return
        cpts = [int(v) for v in rp[2]["ilocs"]]
        x = first_column_values(arg).astype(float)
        must, may = expected_anomalies(cpts, x, p["stat"], p["stat_lower"], p["stat_upper"])
        try:
            got = [(int(iv.left), int(iv.right)) for iv in res[2]["ilocs"]]
            closed = {iv.closed for iv in res[2]["ilocs"]}
        except Exception as e:  # noqa: BLE001
            self.violate("anomalies_mismatch", "A_predict", i, fkind, {"why": f"output has no interval 'ilocs' column: {type(e).__name__}"})
            return
        self.stats["anomalies_reported"] += len(got)
        self.stats["boundary_ties"] += len(may)
        self.stats["adjacent_flagged_pairs"] += sum(1 for a, b in zip(must[:-1], must[1:]) if a[1] == b[0])
        ok = set(must) <= set(got) <= set(must) | set(may) and len(got) == len(set(got)) and got == sorted(got)
        if closed - {"left"}:
            ok = False
        if not ok:
            ev["cmp"] = "NE"
            self.violate(
                "anomalies_mismatch",
                "A_predict",
                i,
                fkind,
                {"changepoints": cpts, "expected": must, "tie_with_bound": may, "got": got, "stat": core.FN_NAME.get(id(p["stat"])), "lower": p["stat_lower"], "upper": p["stat_upper"], "n": len(x)},
            )
            return
        if self.prev_pred_fault:
            self.probe("compared_after_failed_predict")
            self.prev_pred_fault = False
        if self.recovering:
            self.probe("compared_after_recovery")
            self.recovering = False
        if isinstance(self.lin, list) and len(self.lin) > 1:
            self.probe("compared_on_update_lineage")
        if must:
            self.probe("nonempty_expected")

    def compare_transform(self, arg, ds_id, res, ev, i, fkind):
        """Dense entry point, judged only for data with the default 0..n-1 index (the
        behaviour for other indices is C05's subject): row i carries the number (1, 2,
        ... in order) of the flagged segment covering it, 0 elsewhere — so two adjacent
        flagged segments keep different labels."""
        spec = self.ds_spec.get(ds_id) if ds_id is not None else None
        if spec is None or spec["index"]["kind"] != "range" or spec["index"]["start"] != 0 or res[0] != "ok":
            ev["cmp"] = "skip"
            return
        try:
            fresh = core.build(json.loads(self.uspec_at_fit))
        except Exception:  # noqa: BLE001
            return
        if call(fresh, "fit", concat_lineage([c for c, _ in self.lin]))[0] != "ok":
            return
        rp = call(fresh, "predict", arg)
        if rp[0] != "ok":
            return
        p = self.A.get_params(deep=False)
        x = first_column_values(arg).astype(float)
        must, may = expected_anomalies([int(v) for v in rp[2]["ilocs"]], x, p["stat"], p["stat_lower"], p["stat_upper"])
        if may:
            return
        want = np.zeros(len(x), dtype=int)
        for k, (s_, e_) in enumerate(sorted(must)):
            want[s_:e_] = k + 1
        try:
            got = np.asarray(res[2]["labels"]).astype(int)
        except Exception as e:  # noqa: BLE001
            self.violate("anomalies_mismatch", "A_transform", i, fkind, {"why": f"dense output has no 'labels' column: {type(e).__name__}"})
            return
        self.stats["comparisons"] += 1
        self.probe("transform_judged")
        ev["cmp"] = "eq"
        if got.shape != want.shape or not np.array_equal(got, want):
            ev["cmp"] = "NE"
            self.violate("anomalies_mismatch", "A_transform", i, fkind, {"expected_labels": want.tolist(), "got_labels": got.tolist(), "expected_segments": must})

    @staticmethod
    def has_nan(a):
        try:
            return bool(pd.isna(a).to_numpy().any())
        except Exception:  # noqa: BLE001
            return True

    def finish(self):
        pass

    def event_digest(self):
        return core.digest([(e["i"], e["op"], e.get("res"), e.get("out"), e.get("cmp"), e.get("fired")) for e in self.events])


def _d(r):
    return r[0] + (":" + (core.digest(r[1]) if r[0] == "ok" else str(r[1])) if r[1] is not None else "")


def _first_diff(a, b, path=""):
    if type(a) is not type(b) or not isinstance(a, tuple):
        return f"{path}: {str(a)[:120]} -> {str(b)[:120]}" if a != b else None
    if len(a) != len(b):
        return f"{path}: length {len(a)} -> {len(b)}: {str(a)[:100]} -> {str(b)[:100]}"
    for k, (x, y) in enumerate(zip(a, b)):
        if x != y:
            name = x[0] if isinstance(x, tuple) and x and isinstance(x[0], str) else str(k)
            d = _first_diff(x, y, path + "/" + str(name))
            if d:
                return d
    return None


# --------------------------------------------------------------------------------------
# generation
# --------------------------------------------------------------------------------------
STATS = ["np.mean", "np.median", "np.max", "np.min", "np.std", "np.var", "stat_range", "stat_first"]


def gen_U(rng, nmax):
    k = int(rng.integers(5))
    if k == 0:
        return {"__cls__": "PELT", "params": {"cost": {"__cls__": "L2Cost", "params": {"param": None}} if rng.random() < 0.8 else None, "penalty_scale": float(rng.choice([0.1, 0.5, 1.0])), "min_segment_length": int(rng.integers(1, 3))}}
    if k == 1:
        return {"__cls__": "MovingWindow", "params": {"change_score": {"__cls__": "L2Cost", "params": {"param": None}} if rng.random() < 0.6 else None, "bandwidth": int(rng.integers(2, 4)), "threshold_scale": [None, 0.3, 1.0][int(rng.integers(3))], "level": 0.2, "min_detection_interval": 1}}
    if k == 2:
        return {"__cls__": "SeededBinarySegmentation", "params": {"change_score": None, "threshold_scale": float(rng.choice([0.3, 1.0])), "level": 1e-8, "min_segment_length": int(rng.integers(1, 3)), "max_interval_length": 16, "growth_factor": 1.5}}
    m = int(rng.integers(0, 7)) if nmax <= 40 else int(rng.integers(0, 45))
    cp = sorted(set(int(v) for v in rng.integers(1, nmax, size=m)))
    if cp and rng.random() < 0.4:
        cp = sorted(set(cp + [cp[0] + 1]))  # adjacent changepoints -> length-1 segments
    return {"__cls__": "ScriptedDetector" if rng.random() < 0.7 else "ScriptedDetectorNoFit", "params": {"cpts": {"__tuple__": cp}}}


def gen_x(rng, n, intdata):
    x = rng.normal(size=n).round(2)
    for _ in range(int(rng.integers(0, 4))):
        a = int(rng.integers(0, n))
        b = int(rng.integers(a, n + 1))
        x[a:b] += rng.normal(scale=3)
    if intdata:
        x = np.round(x)
    return x


def gen_world(rng, tier):
    cfg = {
        "nsteps": int(rng.integers(6, 41 if tier == "thorough" else 31)),
        "faults": [k for k in ("bad_data", "interrupt", "flaky") if rng.random() < 0.6] if rng.random() < 0.6 else [],
        "p_fault": float(rng.uniform(0.05, 0.3)),
    }
    intdata = bool(rng.random() < 0.5)
    container = "series" if rng.random() < 0.3 else "df"
    ik = [("range", 0), ("range", 0), ("range", int(rng.integers(1, 40))), ("dt", 0)][int(rng.integers(4))]
    col = ["a", 0, "x1"][int(rng.integers(3))]
    nmax = 40
    if rng.random() < (0.1 if tier == "thorough" else 0.06):
        # long series, many segments: code paths that switch on beyond a size
        nmax = int(rng.choice([130, 320]))
        cfg["nsteps"] = min(cfg["nsteps"], 14)
    cfg["nmax"] = nmax
    datasets = []
    dt = "int64" if intdata and rng.random() < 0.3 else "float64"
    glitch = bool(rng.random() < 0.04)
    n0 = int(rng.integers(4, nmax + 1)) if nmax <= 40 else int(rng.integers(nmax // 2, nmax + 1))
    for did in range(int(rng.integers(2, 5))):
        n = n0 if rng.random() < 0.5 else int(rng.integers(4 if nmax <= 40 else 70, nmax + 1))
        x = gen_x(rng, n, intdata)
        if not intdata and glitch and n > 6:
            # one huge (finite) value early in the series: segment statistics have to be
            # taken on the segment's own rows, not as differences of global running sums
            x[int(rng.integers(0, max(1, n // 4)))] = float(rng.choice([1e15, -1e17, 1e18]))
        datasets.append({"id": did, "family": 0, "container": container, "dtype": dt, "index": {"kind": ik[0], "start": ik[1]}, "columns": [col], "values": [[float(v)] for v in x]})
    if "bad_data" in cfg["faults"]:
        did = len(datasets)
        base = datasets[0]
        v = [list(r) for r in base["values"]]
        v[int(rng.integers(len(v)))][0] = None
        datasets.append(dict(base, id=did, bad="nan", dtype="float64", values=v))
        datasets.append(dict(base, id=did + 1, bad="short", values=[list(r) for r in base["values"][:1]]))
    U = gen_U(rng, nmax)
    stat = STATS[int(rng.integers(len(STATS)))]
    if intdata and rng.random() < 0.6:
        lo = float(rng.integers(-3, 2))
        hi = lo + float(rng.integers(0, 4))
    else:
        lo = float(rng.choice([-1.0, 0.0, -0.5, 1.0, -2.5]))
        hi = lo + float(rng.choice([0.0, 1.0, 2.0, 0.5]))
    A = {"__cls__": "StatThresholdAnomaliser", "params": {"change_detector": {"__ref__": "U"}, "stat": {"__fn__": stat}, "stat_lower": lo, "stat_upper": hi}}
    return cfg, datasets, U, A


U_MENU = {
    "PELT": [("penalty_scale", [0.1, 0.5, 2.0]), ("min_segment_length", [1, 2, 3])],
    "MovingWindow": [("bandwidth", [2, 3, 4]), ("threshold_scale", [None, 0.3, 1.0])],
    "SeededBinarySegmentation": [("threshold_scale", [0.3, 1.0, 2.0]), ("min_segment_length", [1, 2])],
    "ScriptedDetector": [("cpts", [{"__tuple__": []}, {"__tuple__": [2, 3]}, {"__tuple__": [1, 5, 6, 9]}, {"__tuple__": [4, 8, 12, 16, 20]}])],
}
U_MENU["ScriptedDetectorNoFit"] = U_MENU["ScriptedDetector"]


def gen_step(rng, sim, cfg, datasets):
    good = [d["id"] for d in datasets if not d.get("bad")]
    bad = [d["id"] for d in datasets if d.get("bad")]
    fitted = isinstance(sim.lin, list)
    if fitted and not sim.needs_fit:
        ops = [("A_predict", 34), ("A_transform", 8), ("A_fit", 10), ("A_update", 7), ("U_fit", 12), ("U_predict", 12), ("U_set_params", 5), ("A_set_params", 4), ("A_clone", 1)]
    else:
        ops = [("A_fit", 50), ("A_predict", 8), ("U_fit", 12), ("U_predict", 10), ("U_set_params", 6), ("A_set_params", 5), ("A_update", 2)]
    if rng.random() < 0.04:
        d = good[int(rng.integers(len(good)))]
        vals = datasets[d]["values"]
        intdata = all(float(v[0]).is_integer() for v in vals if v[0] is not None)
        return {"op": "mutate", "d": d, "values": [[float(v)] for v in gen_x(rng, len(vals), intdata)]}
    names = [o for o, _ in ops]
    w = np.array([x for _, x in ops], float)
    op = names[int(rng.choice(len(names), p=w / w.sum()))]
    if op == "U_set_params":
        menu = U_MENU[type(sim.U).__name__]
        path, vals = menu[int(rng.integers(len(menu)))]
        return {"op": op, "path": path, "value": vals[int(rng.integers(len(vals)))]}
    if op == "A_set_params":
        path = ["stat_lower", "stat_upper", "stat"][int(rng.integers(3))]
        p = sim.A.get_params(deep=False)
        if path == "stat":
            val = {"__fn__": STATS[int(rng.integers(len(STATS)))]}
        elif path == "stat_lower":
            val = float(p["stat_upper"]) - float(rng.choice([0.0, 0.5, 1.0, 3.0]))
        else:
            val = float(p["stat_lower"]) + float(rng.choice([0.0, 0.5, 1.0, 3.0]))
        return {"op": op, "path": path, "value": val}
    if op == "A_clone":
        return {"op": op}
    if op == "A_update":
        like = sim.lin[0][1] if fitted and sim.lin[0][1] is not None else good[0]
        m = int(rng.integers(1, 9))
        intdata = all(float(v[0]).is_integer() for v in datasets[like]["values"] if v[0] is not None)
        st = {"op": op, "like": like, "values": [[float(v)] for v in gen_x(rng, m, intdata)]}
    else:
        d = good[int(rng.integers(len(good)))]
        if bad and rng.random() < 0.1:
            d = bad[int(rng.integers(len(bad)))]
        st = {"op": op, "d": d}
    if op.startswith("A_") and rng.random() < cfg["p_fault"]:
        kinds = [k for k in cfg["faults"] if k in ("interrupt", "flaky")]
        if kinds:
            fk = kinds[int(rng.integers(len(kinds)))]
            if fk == "flaky" and type(sim.U).__name__.startswith("ScriptedDetector"):
                site = "ScriptedDetector._fit" if op in ("A_fit", "A_update") else "ScriptedDetector._predict"
                st["fault"] = {"kind": "flaky", "site": site, "at": 1}
            else:
                st["fault"] = {"kind": "interrupt", "at": int(rng.integers(1, 60 if op == "A_predict" else 30))}
                if rng.random() < 0.3:
                    st["fault"]["alloc"] = True
    return st


def _result(sim, trace):
    return {"trace": trace, "violations": sim.violations, "stats": sim.stats, "digest": sim.event_digest(), "signature": core.digest(sim.sig), "nontrivial": bool(sim.nontrivial)}


def run_one(seed, idx, tier, pristine=None):
    rng = core.make_rng(seed, "C17", idx)
    cfg, datasets, U, A = gen_world(rng, tier)
    trace = {"property": "C17", "seed": int(seed), "run": int(idx), "tier": tier, "config": cfg, "datasets": datasets, "U": U, "A": A, "steps": []}
    sim = Sim(trace)
    for _ in range(cfg["nsteps"]):
        st = gen_step(rng, sim, cfg, datasets)
        trace["steps"].append(st)
        sim.execute(st)
        if sim.violations:
            break
    return _result(sim, trace)


def replay(trace, pristine=None):
    sim = Sim(trace)
    for st in trace["steps"]:
        sim.execute(st)
        if sim.violations:
            break
    return _result(sim, trace)


# --------------------------------------------------------------------------------------
# exhaustive script space for short series (part of both tiers, deeper in thorough)
# --------------------------------------------------------------------------------------
def extra_checks(seed, tier, args):
    """All 2^(n-1) changepoint sets of a scripted detector x statistics x bound patterns
    on integer series of length n (adjacent flagged segments, boundary segments, bounds
    equal to an exactly representable segment statistic)."""
    nmax = 9 if tier == "thorough" else 6
    results = []
    total = 0
    rng = core.make_rng(seed, "C17", 10**6)
    for n in range(2, nmax + 1):
        x = np.round(rng.normal(scale=2.0, size=n))
        ds = {"id": 0, "family": 0, "container": "df", "dtype": "float64", "index": {"kind": "range", "start": 0}, "columns": ["a"], "values": [[float(v)] for v in x]}
        for r in range(0, n):
            for cp in itertools.combinations(range(1, n), r):
                for stat in ("np.mean", "np.median", "np.max"):
                    svals = sorted({float(core.FN[stat](x[s:e])) for s, e in zip((0,) + cp, cp + (n,))})
                    bounds = [(svals[0], svals[-1]), (svals[0], svals[0]), (svals[-1] + 1.0, svals[-1] + 2.0)]
                    for lo, hi in bounds:
                        trace = {
                            "property": "C17",
                            "seed": int(seed),
                            "run": -1,
                            "tier": tier,
                            "config": {"exhaustive": True},
                            "datasets": [ds],
                            "U": {"__cls__": "ScriptedDetector", "params": {"cpts": {"__tuple__": list(cp)}}},
                            "A": {"__cls__": "StatThresholdAnomaliser", "params": {"change_detector": {"__ref__": "U"}, "stat": {"__fn__": stat}, "stat_lower": lo, "stat_upper": hi}},
                            "steps": [{"op": "A_fit", "d": 0}, {"op": "A_predict", "d": 0}, {"op": "A_transform", "d": 0}],
                        }
                        res = replay(trace)
                        total += 1
                        if res["violations"]:
                            out = _result_slim(res)
                            results.append(out)
                            return results, {"exhaustive_script_space": {"n_max": nmax, "cases": total, "complete": False}}
    # many segments on long integer series (label types that are too narrow, vectorised
    # paths that only differ from the loop beyond a size)
    many = 0
    for n, step, dtp in ((300, 2, "float64"), (800, 3, "int64"), (1500, 2, "float64"), (700, 1, "int64")):
        x = np.round(rng.normal(scale=2.0, size=n))
        ds = {"id": 0, "family": 0, "container": "df", "dtype": dtp, "index": {"kind": "range", "start": 0}, "columns": ["a"], "values": [[float(v)] for v in x]}
        cp = list(range(step, n, step))
        for stat, lo, hi in (("np.mean", -0.5, 0.5), ("np.median", 0.0, 0.0), ("np.max", -1.0, 2.0)):
            trace = {
                "property": "C17",
                "seed": int(seed),
                "run": -2,
                "tier": tier,
                "config": {"many_segments": [n, step]},
                "datasets": [ds],
                "U": {"__cls__": "ScriptedDetector", "params": {"cpts": {"__tuple__": cp}}},
                "A": {"__cls__": "StatThresholdAnomaliser", "params": {"change_detector": {"__ref__": "U"}, "stat": {"__fn__": stat}, "stat_lower": lo, "stat_upper": hi}},
                "steps": [{"op": "A_fit", "d": 0}, {"op": "A_predict", "d": 0}, {"op": "A_transform", "d": 0}],
            }
            res = replay(trace)
            many += 1
            if res["violations"]:
                results.append(_result_slim(res))
                return results, {"exhaustive_script_space": {"n_max": nmax, "cases": total, "complete": False}}
    agg = {"violations": [], "stats": {"steps": 3 * (total + many), "comparisons": 2 * (total + many), "probes": {"exhaustive_script_cases": total, "many_segment_cases": many}}, "digest": "", "signature": "exhaustive", "nontrivial": True, "run": -1, "nsteps": 2 * total}
    results.append(agg)
    return results, {"exhaustive_script_space": {"n_max": nmax, "cases": total, "complete": True, "what": "all changepoint subsets of 1..n-1 x {mean, median, max} x 3 bound patterns (bounds equal to extreme segment statistics; lower == upper; nothing flagged) on integer series; plus 12 cases with 150-750 segments on series of 300-1500 rows (float64 and int64 data)"}}


def _result_slim(res):
    return {"violations": res["violations"], "stats": res["stats"], "digest": res["digest"], "signature": res["signature"], "nontrivial": True, "run": -1, "nsteps": len(res["trace"]["steps"]), "trace": res["trace"]}


TIERS = {"quick": {"runs": 4000, "guard": 120}, "thorough": {"runs": 60000, "guard": 300}}

RULE = (
    "One case = one seeded two-party history: user U holding a change detector (PELT, MovingWindow, "
    "SeededBinarySegmentation or the scripted stub) and anomaliser A wrapping that very object, 6-30 interleaved "
    "calls (U.fit / U.predict / U.set_params / A.fit / A.predict / A.update / A.set_params / A.clone) on "
    "univariate Series or DataFrames with range, offset or datetime index, with faults (failing stub, NaN/short "
    "data, interrupts inside A's calls). Every A.predict in a specified state is compared with the "
    "segments-and-statistic reference model; after every step of A the deep fingerprint of U's object must be "
    "unchanged and every U output must equal that of a shadow detector that saw only U's steps. Non-trivial = at "
    "least one A.predict judged against the reference; distinct = distinct sequence of (operation, outcome, fired "
    "fault). Plus the complete script space for short integer series (see exhaustive_script_space)."
)

ASSUMPTIONS = [
    "only interval endpoints, their order and their count are judged (label / dtype format is C04's subject)",
    "a statistic within 1e-9 relative of a bound on non-integer data may fall either way; on integer data the comparison is exact (strict < and >)",
    "after U.set_params the anomaliser is not judged until its next fit (hyper-parameter changes take effect at the next fit)",
    "a failed or interrupted A.fit / A.update leaves A unspecified until its next successful fit",
    "univariate pandas input only (ndarray / multivariate input is C11's subject)",
]
