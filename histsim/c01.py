"""C01 — cost values equal their definition on every admissible interval.

Schedule/history part: the row returned for an interval must not depend on the batch it
is in, on the order of the batch, on the iteration order of the prange loops, on
earlier evaluations, refits, parameter changes, a sharing detector's runs on the same
data, or on crashes of earlier calls.  Value part: a reference model computed directly
from the rows, compared up to a derived prefix-sum rounding band.  See DESIGN 4.2.
"""

import json

import numpy as np
import pandas as pd

from histsim import core
from histsim.core import LineTracer, SimAllocFail, SimInterrupt, fingerprint_arg

EPS = np.finfo(float).eps
C = 8.0
KINDS = {"l2": "L2Cost", "gv": "GaussianVarCost", "gc": "GaussianCovCost"}


# --------------------------------------------------------------------------------------
# reference model
# --------------------------------------------------------------------------------------
def bcast(v, p):
    v = np.asarray(v, float).reshape(-1)
    return np.broadcast_to(v, (p,)) if v.size in (1, p) else v


def ref_row(kind, param, X, s, e):
    """Admissible band (lo, hi) for the row of interval [s, e), or 'raise' / 'either' /
    'unjudged'.

    Error model ("up to prefix-sum rounding error"): an implementation may keep prefix
    sums of x, x^2 (or outer products) in the raw coordinates or in coordinates shifted
    by any value inside the data's range (first row, mean, the fixed mean ...).  The
    absolute error of a difference of two such prefix sums up to row e is bounded by
    C * eps * Q with Q_j = e * (2 * max_{t<e} |x_tj| + |m_j|)^2 per column (m = fixed
    mean, 0 in optimal mode), which dominates sum_{t<e} (x_t - shift)^2 for every such
    shift.  C = 16 (and at least (e + 8) / 2 for long series)."""
    Xs = X[s:e].astype(float)
    Xp = X[:e].astype(float)
    n, p = Xs.shape
    # worst case of recursive summation: each of the two prefix sums up to row e carries
    # at most (e - 1) * eps / 2 times the sum of the absolute terms, so the constant has
    # to grow with e for long series (it is 2 * C for e <= 24)
    CE = max(2 * C, e + 8) * EPS
    M = np.abs(Xp).max(0)

    def Q(m):
        return e * (2 * M + np.abs(m)) ** 2

    if kind == "l2":
        if param is None:
            m = Xs.mean(0)
            val = ((Xs - m) ** 2).sum(0)
            err = CE * Q(0.0)
        else:
            m = bcast(param, p)
            val = ((Xs - m) ** 2).sum(0)
            err = CE * Q(m)
        err = err + 4 * C * EPS * np.abs(val)
        return val - err, val + err
    if kind == "gv":
        if param is None:
            v = Xs.var(0)
            dv = CE * Q(0.0) / n + 4 * C * EPS * v
            lo = np.maximum(v - dv, 1e-16)
            hi = np.maximum(v + dv, 1e-16)

            def f(vv):
                return n * np.log(2 * np.pi * vv) + n

            a, b = f(lo), f(hi)
            sl = 4 * C * EPS * np.maximum(np.abs(a), np.abs(b)) + 4 * C * EPS * n
            return a - sl, b + sl
        m, var = param
        m = bcast(m, p)
        var = bcast(var, p)
        q = ((Xs - m) ** 2).sum(0)
        val = n * np.log(2 * np.pi * var) + q / var
        err = CE * Q(m) / var + 4 * C * EPS * (np.abs(val) + q / var) + C * EPS * n * np.abs(np.log(2 * np.pi * var))
        return val - err, val + err
    if kind == "gc":
        if param is None:
            c = np.atleast_2d(np.cov(Xs, rowvar=False, ddof=0))
            ev = np.linalg.eigvalsh(c)
            tr = max(float(np.trace(c)), 1e-300)
            lam = float(ev.min())
            # exactness must hold for every row that enters a prefix sum, not only for the
            # slice: an implementation on prefix sums sees rounding from earlier rows
            isint = bool(np.all(Xp == np.round(Xp)) and np.abs(Xp).max() < 2**20)
            const = bool(np.any(Xs.max(0) == Xs.min(0)))
            dup = any(np.array_equal(Xs[:, i], Xs[:, j]) for i in range(p) for j in range(i))
            if isint and const:
                # a constant integer column: variance exactly 0 with exact partial sums
                # in any evaluation order (also after an integer shift), determinant <= 0
                return "raise"
            if dup or lam <= 1e-8 * tr:
                # duplicated columns: singular in exact arithmetic, but BLAS may round
                # the diagonal and off-diagonal dot products differently -> either
                return "either"
            _, ld = np.linalg.slogdet(c)
            val = n * p * np.log(2 * np.pi) + n * ld + p * n
            delta = CE * float(Q(0.0).max()) / n
            if delta / lam > 0.1:
                return "unjudged"
            err = 2 * n * p * delta / lam + 1e-12 * (abs(val) + n * p)
            return np.array([val - err]), np.array([val + err])
        m, c = param
        m = bcast(m, p)
        c = c * np.eye(p) if np.ndim(c) == 0 else np.asarray(c, float)
        _, ld = np.linalg.slogdet(c)
        ic = np.linalg.inv(c)
        q = float(np.einsum("ij,jk,ik->", Xs - m, ic, Xs - m))
        val = n * p * np.log(2 * np.pi) + n * ld + q
        err = CE * float(np.abs(ic).sum(1).max()) * float(Q(m).sum()) * p + 1e-12 * (abs(val) + abs(q) + n * p)
        return np.array([val - err]), np.array([val + err])
    raise ValueError(kind)


def min_size(kind, p):
    return {"l2": 1, "gv": 2, "gc": p + 1}[kind]


def build_param(kind, ps, p):
    """Materialise a parameter spec (JSON) into the object given to the cost."""
    if ps is None:
        return None
    return core.build(ps)


# --------------------------------------------------------------------------------------
# simulation
# --------------------------------------------------------------------------------------
class Slot:
    """One cost instance held by one user (several independent instances of the same
    class may be alive in one history: state must not leak between them)."""

    def __init__(self):
        self.cost = None
        self.param = None  # materialised, handed to the cost
        self.param_ref = None  # the reference model's own copy, built separately
        self.param_spec = None
        self.fitted = None  # dataset id or None (unspecified)
        self.dets = {}
        self.cutbuf = None  # the user's preallocated cuts buffer, refilled in place


def _slot_attr(name):
    return property(lambda self: getattr(self.cur, name), lambda self, v: setattr(self.cur, name, v))


class Sim:
    cost = _slot_attr("cost")
    param = _slot_attr("param")
    param_ref = _slot_attr("param_ref")
    param_spec = _slot_attr("param_spec")
    fitted = _slot_attr("fitted")
    dets = _slot_attr("dets")

    def __init__(self, trace):
        self.trace = trace
        self.kind = trace["kind"]
        self.data = {d["id"]: np.array(d["values"], dtype=float).reshape(len(d["values"]), d["p"]) for d in trace["datasets"]}
        self.slots = [Slot() for _ in range(int(trace.get("config", {}).get("instances", 1)))]
        self.cur = self.slots[0]
        self.fit_epoch = 0
        self.answers = {}
        self.version = {}
        self.events = []
        self.violations = []
        self.sig = []
        self.nontrivial = False
        self.stats = {
            "steps": 0,
            "comparisons": 0,
            "rows_judged": 0,
            "rows_either": 0,
            "rows_unjudged": 0,
            "batches": 0,
            "batches_raised": 0,
            "independence_checks": 0,
            "faults_fired": {"singular": 0, "interrupt": 0, "bad_cuts": 0, "bad_param": 0},
            "probes": {},
        }
        self._install_prange()

    # prange seam -----------------------------------------------------------------
    def _install_prange(self):
        import skchange.costs.gaussian_cov_cost as gcc
        import skchange.utils.numba.general as gen

        sim = self
        self.perm_rng = None

        def sim_prange(*a):
            idx = list(range(*a))
            if sim.perm_rng is not None and len(idx) > 1:
                sim.perm_rng.shuffle(idx)
                sim.stats["probes"]["prange_permuted"] = sim.stats["probes"].get("prange_permuted", 0) + 1
            return iter(idx)

        gcc.prange = sim_prange
        gen.prange = sim_prange

    def probe(self, name, k=1):
        self.stats["probes"][name] = self.stats["probes"].get(name, 0) + k

    def violate(self, cls, op, step, detail):
        self.violations.append({"class": cls, "client_kind": KINDS[self.kind], "client": "cost", "op": op, "step": step, "fault": None, "detail": detail})

    def mode(self):
        return "optim" if self.param is None else "fixed"

    # steps -----------------------------------------------------------------------
    def execute(self, st):
        i = len(self.events)
        self.stats["steps"] += 1
        op = st["op"]
        ev = {"i": i, "op": op, "k": st.get("k", 0)}
        self.cur = self.slots[st.get("k", 0) % len(self.slots)]
        if st.get("k", 0):
            self.probe("step_on_second_instance")
        getattr(self, "op_" + op)(st, ev, i)
        if self.cost is not None and op in ("fit", "eval", "det_run") and core.canon(self.param) != core.canon(self.param_ref):
            # the parameter object handed to the cost (its hyper-parameter) was modified
            self.violate("param_mutated", op, i, {"param_now": repr(self.param)[:300], "param_given": repr(self.param_ref)[:300]})
        self.events.append(ev)
        self.sig.append((op, self.kind, self.mode() if self.cost is not None else None, ev.get("tag")))
        return ev

    def op_new(self, st, ev, i):
        cls = core.register_classes()[KINDS[self.kind]]
        self.param_spec = st["param"]
        self.param = build_param(self.kind, st["param"], None)
        self.param_ref = build_param(self.kind, st["param"], None)
        self.cost = cls(self.param)
        self.fitted = None
        self.dets = {}
        ev["res"] = "ok"

    def op_set_params(self, st, ev, i):
        if self.cost is None:
            ev["noop"] = True
            return
        self.param_spec = st["param"]
        self.param = build_param(self.kind, st["param"], None)
        self.param_ref = build_param(self.kind, st["param"], None)
        self.cost.set_params(param=self.param)
        self.fitted = None
        ev["res"] = "ok"
        self.probe("param_changed")

    def op_mutate(self, st, ev, i):
        """The user overwrites their data array in place (a reused buffer): the cost is
        unspecified until the next fit, which must see the new values."""
        d = st["d"]
        new = np.array(st["values"], dtype=float).reshape(self.data[d].shape)
        self.data[d][...] = new
        self.version[d] = self.version.get(d, 0) + 1
        for sl in self.slots:
            if sl.fitted == d:
                sl.fitted = None
        self.probe("data_mutated_in_place")
        ev["res"] = "ok"

    def op_fit(self, st, ev, i):
        if self.cost is None:
            ev["noop"] = True
            return
        X = self.data[st["d"]]
        arg = X if st.get("container", "ndarray") == "ndarray" else pd.DataFrame(X)
        if st.get("dtype") == "int64" and np.all(X == np.round(X)):
            arg = arg.astype("int64")
        fp = fingerprint_arg(arg)
        fault = st.get("fault")
        try:
            if fault:
                tr = LineTracer(int(fault["at"]), alloc=bool(fault.get("alloc")))
                tr.run(lambda: self.cost.fit(arg))
            else:
                self.cost.fit(arg)
            if self.fitted is not None and self.fitted != st["d"]:
                self.probe("refit_on_other_data")
            self.fitted = st["d"]
            self.fit_epoch += 1
            ev["res"] = "ok"
        except (SimInterrupt, SimAllocFail):
            self.fitted = None
            self.stats["faults_fired"]["interrupt"] += 1
            ev["res"] = "int"
            ev["tag"] = "int"
        except ValueError:
            # documented rejection of a parameter that does not match the data
            self.fitted = None
            if fault and fault.get("alloc") and tr.fired_at is not None:
                self.stats["faults_fired"]["interrupt"] += 1
                ev["res"] = "int"
                ev["tag"] = "int"
                return
            self.stats["faults_fired"]["bad_param"] += 1
            ev["res"] = "exc:ValueError"
            if self.param_ok_for(X):
                self.violate("unexpected_error", "fit", i, {"error": "ValueError for a valid parameter", "param": json.dumps(self.param_spec), "shape": list(X.shape)})
        if fingerprint_arg(arg) != fp:
            self.violate("arg_mutated", "fit", i, "fit modified the caller's data")

    def param_ok_for(self, X):
        p = X.shape[1]
        if self.param_ref is None:
            return True
        try:
            if self.kind == "l2":
                return np.asarray(self.param_ref, float).reshape(-1).size in (1, p)
            m, v = self.param_ref
            if np.asarray(m, float).reshape(-1).size not in (1, p):
                return False
            if self.kind == "gv":
                return np.asarray(v, float).reshape(-1).size in (1, p)
            return np.ndim(v) == 0 or np.asarray(v).shape == (p, p)
        except Exception:  # noqa: BLE001
            return False

    def op_det_run(self, st, ev, i):
        """A detector that holds the very same cost object runs on the same data."""
        if self.cost is None or self.fitted is None:
            ev["noop"] = True
            return
        X = self.data[self.fitted]
        key = json.dumps(st["det"], sort_keys=True)
        try:
            if key not in self.dets:
                spec = json.loads(key)
                self.dets[key] = core.build(spec, {"COST": self.cost})
            det = self.dets[key]
        except Exception as e:  # noqa: BLE001
            ev["res"] = "nobuild:" + type(e).__name__
            return
        df = pd.DataFrame(X)
        fault = st.get("fault")

        def go():
            det.fit(df)
            det.predict(df)

        core.budget_start()
        try:
            if fault:
                tr = LineTracer(int(fault["at"]), alloc=bool(fault.get("alloc")))
                tr.run(go)
            else:
                go()
            ev["res"] = "ok"
        except (SimInterrupt, SimAllocFail):
            self.stats["faults_fired"]["interrupt"] += 1
            ev["res"] = "int"
            ev["tag"] = "int"
        except core.CallHang:
            ev["res"] = "hang"
        except Exception as e:  # noqa: BLE001
            ev["res"] = "exc:" + type(e).__name__
        finally:
            core.budget_stop()
        self.probe("sharing_detector_ran")

    def op_eval(self, st, ev, i):
        if self.cost is None or self.fitted is None:
            ev["noop"] = True
            return
        X = self.data[self.fitted]
        n, p = X.shape
        cuts = np.array(st["cuts"], dtype=np.int64).reshape(-1, 2)
        ms = min_size(self.kind, p)
        ok_rows = [(0 <= s < e <= n and e - s >= ms) for s, e in cuts]
        if not all(ok_rows) or len(cuts) == 0:
            # noise step: not admissible intervals (C13's business); only require that
            # the object still answers correctly afterwards
            try:
                self.cost.evaluate(cuts)
            except Exception:  # noqa: BLE001
                pass
            self.stats["faults_fired"]["bad_cuts"] += 1
            ev["tag"] = "bad_cuts"
            return
        arg = cuts[0] if (st.get("as1d") and len(cuts) == 1) else cuts
        cdt = st.get("cuts_dtype")
        if cdt and cdt != "int64" and int(cuts.max()) <= np.iinfo(cdt).max:
            # the same intervals in a narrower integer type
            arg = arg.astype(cdt)
            self.probe("narrow_cuts_dtype")
        if st.get("buf"):
            # the user's preallocated buffer: refilled in place and handed over again
            b = self.cur.cutbuf
            if b is not None and b.shape == arg.shape and b.dtype == arg.dtype:
                b[...] = arg
                arg = b
                self.probe("cuts_buffer_reused")
            else:
                self.cur.cutbuf = arg = arg.copy()
        fp = fingerprint_arg(arg)
        self.perm_rng = np.random.default_rng(st["perm"]) if st.get("perm") is not None else None
        refs = [ref_row(self.kind, self.param_ref, X, int(s), int(e)) for s, e in cuts]
        fault = st.get("fault")
        self.stats["batches"] += 1
        try:
            if fault:
                tr = LineTracer(int(fault["at"]), alloc=bool(fault.get("alloc")))
                out = tr.run(lambda: self.cost.evaluate(arg))
            else:
                out = self.cost.evaluate(arg)
        except (SimInterrupt, SimAllocFail):
            self.stats["faults_fired"]["interrupt"] += 1
            ev["res"] = "int"
            ev["tag"] = "int"
            return
        except Exception as ex:  # noqa: BLE001
            if fault and fault.get("alloc") and tr.fired_at is not None:
                # the injected allocation failure left the call as another exception
                self.stats["faults_fired"]["interrupt"] += 1
                ev["res"] = "int"
                ev["tag"] = "int"
                return
            if not isinstance(ex, RuntimeError):
                ev["res"] = "exc:" + type(ex).__name__
                self.violate("unexpected_error", "evaluate", i, {"error": f"{type(ex).__name__}: {ex}"[:300], "cuts": cuts.tolist(), "param": json.dumps(self.param_spec)})
                return
            self.stats["batches_raised"] += 1
            self.stats["faults_fired"]["singular"] += 1
            ev["res"] = "exc:RuntimeError"
            ev["tag"] = "singular"
            if not any(isinstance(r_, str) and r_ in ("raise", "either", "unjudged") for r_ in refs):
                self.violate("unexpected_raise", "evaluate", i, {"error": str(ex)[:200], "cuts": cuts.tolist(), "param": json.dumps(self.param_spec)})
            return
        finally:
            self.perm_rng = None
        if fingerprint_arg(arg) != fp:
            self.violate("arg_mutated", "evaluate", i, "evaluate modified the cuts array")
        ev["res"] = "ok"
        ev["out"] = core.digest(core.canon(out))
        if any(isinstance(r_, str) and r_ == "raise" for r_ in refs):
            self.violate("missing_raise", "evaluate", i, {"cuts": cuts.tolist(), "why": "integer-valued slice with a constant column: covariance exactly singular"})
            return
        want_shape = (len(cuts), 1 if self.kind == "gc" else p)
        if not isinstance(out, np.ndarray) or out.shape != want_shape:
            self.violate("shape", "evaluate", i, {"got": getattr(out, "shape", None), "want": want_shape})
            return
        if not np.all(np.isfinite(out)):
            # finite data have finite costs (the variance floor exists for that); the only
            # other permitted outcome is the documented error
            self.violate("non_finite_value", "evaluate", i, {"cuts": cuts.tolist(), "got": np.asarray(out).tolist(), "param": json.dumps(self.param_spec)})
            return
        self.stats["comparisons"] += 1
        if len(self.answers) > 0 or self.fit_epoch > 1:
            self.nontrivial = True
        for row, (s, e), r_ in zip(out, cuts, refs):
            s, e = int(s), int(e)
            key = (self.fitted, self.version.get(self.fitted, 0), json.dumps(self.param_spec, sort_keys=True), s, e)
            if key in self.answers:
                self.stats["independence_checks"] += 1
                prev = self.answers[key]
                if not np.allclose(prev, row, rtol=1e-12, atol=1e-300, equal_nan=True):
                    self.violate("independence", "evaluate", i, {"interval": [s, e], "earlier": prev.tolist(), "now": row.tolist(), "param": json.dumps(self.param_spec)})
                    return
            else:
                self.answers[key] = np.array(row, dtype=float)
            if isinstance(r_, str):
                if r_ == "either":
                    self.stats["rows_either"] += 1
                else:
                    self.stats["rows_unjudged"] += 1
                continue
            lo, hi = r_
            self.stats["rows_judged"] += 1
            if not (np.all(row >= lo) and np.all(row <= hi)):
                self.violate(
                    "value_band",
                    "evaluate",
                    i,
                    {"interval": [s, e], "got": np.asarray(row).tolist(), "lo": np.asarray(lo).tolist(), "hi": np.asarray(hi).tolist(), "param": json.dumps(self.param_spec), "shape": [n, p], "mode": self.mode()},
                )
                return

    def finish(self):
        pass

    def event_digest(self):
        return core.digest([(e["i"], e["op"], e.get("k"), e.get("res"), e.get("out"), e.get("tag")) for e in self.events])


# --------------------------------------------------------------------------------------
# generation
# --------------------------------------------------------------------------------------
def _scale_param(ps, kind, sc):
    """The same parameter at another scale of the data: means times sc, variances and
    covariances times sc**2 (small-scale data have small covariances)."""

    def mul(x, f):
        if isinstance(x, dict) and "__arr__" in x:
            return {"__arr__": (np.asarray(x["__arr__"], dtype=float) * f).tolist(), "dtype": "float64"}
        return float(x) * f

    if ps is None:
        return None
    if kind == "l2":
        return mul(ps, sc)
    m, v = ps["__tuple__"]
    return {"__tuple__": [mul(m, sc), mul(v, sc * sc)]}


def gen_param(rng, kind, p):
    ps = _gen_param(rng, kind, p)
    if ps is not None and rng.random() < 0.2:
        ps = _scale_param(ps, kind, float(rng.choice([1e-4, 1e-3, 1e-2, 50.0])))
    c = rng.random()
    if ps is not None and c < 0.3:
        # the same parameter values handed over in another valid form: Python lists
        # instead of arrays, integers instead of floats where the value is integral
        def relist(x):
            if isinstance(x, dict) and "__arr__" in x and rng.random() < 0.7 and np.ndim(x["__arr__"]) == 1:
                return list(x["__arr__"])
            if isinstance(x, dict) and "__tuple__" in x:
                return {"__tuple__": [relist(v) for v in x["__tuple__"]]}
            if isinstance(x, float) and float(x).is_integer() and rng.random() < 0.5:
                return int(x)
            return x

        ps = relist(ps)
    return ps


def _gen_param(rng, kind, p):
    mode = int(rng.integers(0, 4))
    if mode == 0:
        return None
    big = float(rng.choice([1, 1, 100]))
    if mode == 1:
        m = round(float(rng.normal() * big), 3)
        if rng.random() < 0.3:
            m = float(round(m))
    else:
        m = {"__arr__": [round(float(v), 3) for v in rng.normal(size=p) * big], "dtype": "float64"}
    if kind == "l2":
        return m
    ints = rng.random() < 0.2
    if kind == "gv":
        if mode == 1:
            v = int(rng.integers(1, 6)) if ints else round(float(rng.uniform(0.01, 30)), 4)
        elif ints:
            v = {"__arr__": [int(x) for x in rng.integers(1, 6, size=p)], "dtype": "int64"}
        else:
            v = {"__arr__": [round(float(x), 4) for x in rng.uniform(0.01, 30, size=p)], "dtype": "float64"}
        return {"__tuple__": [m, v]}
    if mode in (1, 3):
        c = int(rng.integers(1, 6)) if ints else round(float(rng.uniform(0.01, 30)), 4)
    else:
        A = rng.normal(size=(p, p))
        c = {"__arr__": np.round(A @ A.T + 0.1 * np.eye(p), 4).tolist(), "dtype": "float64"}
    return {"__tuple__": [m, c]}


def gen_X(rng, nmax, shape=None):
    if shape is None:
        n = int(rng.integers(1, nmax + 1)) if nmax <= 60 else int(rng.integers(90, nmax + 1))
        p = int(rng.integers(1, 4)) if rng.random() < 0.9 else int(rng.integers(4, 7))
    else:
        n, p = shape
    sc = float(rng.choice([1e-4, 1e-3, 1, 1, 1, 30, 1e3]))
    off = float(rng.choice([0, 0, 5, -200, 1e3]))
    if sc < 1e-2 and rng.random() < 0.7:
        off = 0.0
    X = rng.normal(size=(n, p)) * sc + off
    if p > 1 and rng.random() < 0.2:
        # columns of very different magnitude
        X = X * np.array([float(rng.choice([1e-3, 1.0, 1e3])) for _ in range(p)])
    if rng.random() < 0.5:
        X = X.round(int(rng.integers(0, 4)))
    if rng.random() < 0.3 and n > 3:
        a = int(rng.integers(0, n - 2))
        b = int(rng.integers(a + 2, n + 1))
        X[a:b, int(rng.integers(p))] = X[a, 0]
    if rng.random() < 0.1 and p > 1:
        X[:, 1] = X[:, 0]
    return X


DET_MENU = [
    {"__cls__": "PELT", "params": {"cost": {"__ref__": "COST"}, "penalty_scale": 1.0, "min_segment_length": 3}},
    {"__cls__": "MovingWindow", "params": {"change_score": {"__ref__": "COST"}, "bandwidth": 4, "threshold_scale": 1.0, "level": 0.01, "min_detection_interval": 1}},
    {"__cls__": "SeededBinarySegmentation", "params": {"change_score": {"__ref__": "COST"}, "threshold_scale": 2.0, "level": 1e-8, "min_segment_length": 4, "max_interval_length": 16, "growth_factor": 1.5}},
    {"__cls__": "CircularBinarySegmentation", "params": {"anomaly_score": {"__ref__": "COST"}, "threshold_scale": 2.0, "level": 1e-8, "min_segment_length": 4, "max_interval_length": 9, "growth_factor": 2.0}},
    {"__cls__": "CAPA", "params": {"collective_saving": {"__ref__": "COST"}, "point_saving": None, "collective_penalty_scale": 2.0, "point_penalty_scale": 2.0, "min_segment_length": 4, "max_segment_length": 12, "ignore_point_anomalies": True}},
]


def gen_step(rng, sim, cfg, datasets):
    k = int(rng.integers(len(sim.slots))) if len(sim.slots) > 1 and rng.random() < 0.5 else 0
    sim.cur = sim.slots[k]
    st = _gen_step(rng, sim, cfg, datasets)
    if k:
        st["k"] = k
    return st


def _gen_step(rng, sim, cfg, datasets):
    r = rng.random()
    if sim.cost is None or r < 0.05:
        p_ref = datasets[0]["p"]
        return {"op": "new", "param": gen_param(rng, sim.kind, p_ref)}
    if r < 0.11:
        p_ref = datasets[int(rng.integers(len(datasets)))]["p"]
        return {"op": "set_params", "param": gen_param(rng, sim.kind, p_ref)}
    if r < 0.14 and sim.fitted is not None:
        X = sim.data[sim.fitted]
        return {"op": "mutate", "d": sim.fitted, "values": gen_X(rng, 0, shape=X.shape).tolist()}
    if sim.fitted is None or r < 0.26:
        # prefer a twin (same shape) of the currently fitted data
        cands = list(range(len(datasets)))
        if sim.fitted is not None and rng.random() < 0.5:
            fam = datasets[sim.fitted]["family"]
            tw = [d["id"] for d in datasets if d["family"] == fam]
            cands = tw or cands
        st = {"op": "fit", "d": int(rng.choice(cands)), "container": str(rng.choice(["ndarray", "df"])), "dtype": str(rng.choice(["float64", "float64", "int64"]))}
        if "interrupt" in cfg["faults"] and rng.random() < cfg["p_fault"]:
            st["fault"] = {"kind": "interrupt", "at": int(rng.integers(1, 12))}
            if rng.random() < 0.3:
                st["fault"]["alloc"] = True
        return st
    if r < 0.33 and cfg["det_runs"]:
        st = {"op": "det_run", "det": DET_MENU[int(rng.integers(len(DET_MENU)))]}
        if "interrupt" in cfg["faults"] and rng.random() < cfg["p_fault"]:
            st["fault"] = {"kind": "interrupt", "at": int(rng.integers(1, 400))}
            if rng.random() < 0.3:
                st["fault"]["alloc"] = True
        return st
    X = sim.data[sim.fitted]
    n, p = X.shape
    ms = min_size(sim.kind, p)
    if n < ms:
        return {"op": "fit", "d": int(rng.integers(len(datasets))), "container": "ndarray", "dtype": "float64"}
    k = int(rng.integers(1, cfg["max_batch"] + 1))
    if cfg.get("p_buf", 0.0) and sim.cur.cutbuf is not None and sim.cur.cutbuf.ndim == 2 and rng.random() < 0.7:
        k = len(sim.cur.cutbuf)  # a preallocated buffer keeps its length
    cuts = []
    prev = [key for key in sim.answers if key[0] == sim.fitted and key[1] == sim.version.get(sim.fitted, 0)]
    for _ in range(k):
        c = rng.random()
        if prev and c < 0.35:
            key = prev[int(rng.integers(len(prev)))]
            cuts.append([key[3], key[4]])
        elif cuts and c < 0.45:
            cuts.append(list(cuts[int(rng.integers(len(cuts)))]))
        else:
            s = int(rng.integers(0, n - ms + 1))
            e = int(rng.integers(s + ms, n + 1))
            cuts.append([s, e])
    st = {"op": "eval", "cuts": cuts}
    if rng.random() < 0.04:
        j = int(rng.integers(len(cuts)))
        cuts[j] = [[cuts[j][1], cuts[j][0]], [cuts[j][0], n + 2], [-1, cuts[j][1]]][int(rng.integers(3))]
    if len(cuts) == 1 and rng.random() < 0.5:
        st["as1d"] = True
    c = rng.random()
    if c < 0.18:
        st["cuts_dtype"] = str(rng.choice(["int32", "int32", "int16", "uint16", "int8", "uint8", "uint32"]))
    if rng.random() < cfg.get("p_buf", 0.0):
        st["buf"] = True
    if cfg["permute"]:
        st["perm"] = int(rng.integers(1 << 30))
    if "interrupt" in cfg["faults"] and rng.random() < cfg["p_fault"]:
        st["fault"] = {"kind": "interrupt", "at": int(rng.integers(1, 40))}
        if rng.random() < 0.3:
            st["fault"]["alloc"] = True
    return st


def gen_world(rng, tier):
    thorough = tier == "thorough"
    cfg = {
        "nsteps": int(rng.integers(6, 61 if thorough else 41)),
        "nmax": 60 if thorough and rng.random() < 0.3 else 30,
        "max_batch": int(rng.choice([2, 6, 12, 24])),
        "permute": bool(rng.random() < 0.7),
        "det_runs": bool(rng.random() < 0.6),
        "faults": ["interrupt"] if rng.random() < 0.5 else [],
        "p_fault": float(rng.uniform(0.05, 0.25)),
        "instances": int(rng.choice([1, 1, 2, 2, 3])),
        "p_buf": float(rng.choice([0.0, 0.0, 0.3, 0.8])),
    }
    if rng.random() < (0.1 if thorough else 0.06):
        # long series and large batches: code paths that switch on beyond a size
        cfg["nmax"] = int(rng.choice([150, 300]))
        cfg["max_batch"] = int(rng.choice([64, 300, 700]))
        cfg["nsteps"] = min(cfg["nsteps"], 14)
        cfg["det_runs"] = False
    datasets = []
    did = 0
    for f in range(int(rng.integers(1, 3))):
        X = gen_X(rng, cfg["nmax"])
        for t in range(int(rng.integers(1, 3))):
            if t > 0:
                X = gen_X(rng, cfg["nmax"], shape=X.shape)
            datasets.append({"id": did, "family": f, "p": int(X.shape[1]), "values": X.tolist()})
            did += 1
    return cfg, datasets


def _result(sim, trace):
    return {
        "trace": trace,
        "violations": sim.violations,
        "stats": sim.stats,
        "digest": sim.event_digest(),
        "signature": core.digest(sim.sig),
        "nontrivial": bool(sim.nontrivial),
    }


def run_one(seed, idx, tier, pristine=None):
    rng = core.make_rng(seed, "C01", idx)
    kind = ["l2", "gv", "gc"][int(rng.integers(3))]
    cfg, datasets = gen_world(rng, tier)
    trace = {"property": "C01", "seed": int(seed), "run": int(idx), "tier": tier, "kind": kind, "config": cfg, "datasets": datasets, "steps": []}
    sim = Sim(trace)
    for _ in range(cfg["nsteps"]):
        st = gen_step(rng, sim, cfg, datasets)
        trace["steps"].append(st)
        sim.execute(st)
        if sim.violations:
            break
    return _result(sim, trace)


def replay(trace, pristine=None):
    sim = Sim(trace)
    for st in trace["steps"]:
        sim.execute(st)
        if sim.violations:
            break
    return _result(sim, trace)


TIERS = {"quick": {"runs": 6000, "guard": 120}, "thorough": {"runs": 100000, "guard": 300}}

RULE = (
    "One case = one seeded history on 1-3 independent cost objects of one class (L2Cost, GaussianVarCost or GaussianCovCost; optimal or "
    "fixed scalar / per-column / matrix parameter): new / set_params / fit (ndarray or DataFrame, float or int, "
    "refits on same-shape twins and other shapes) / evaluate of a batch merged from earlier and new admissible "
    "intervals with duplicates in seeded order under a seeded permutation of the prange loop / runs of a detector "
    "holding the same cost object on the same data / interrupts at a skchange source line inside fit, evaluate "
    "and the detector run / invalid-cuts noise. Every returned row is judged against a direct computation from "
    "X[s:e] with a derived prefix-sum rounding band, and against every earlier answer for the same (data, "
    "parameter, interval). Non-trivial = at least one judged batch after an earlier evaluate or refit on the same "
    "object; distinct = distinct sequence of (operation, cost, parameter mode, fault tag)."
)

ASSUMPTIONS = [
    "prange iterations are independent and may run in any order (numba's contract); explored by permuting the pure-Python fallback loop",
    "value bands follow the prefix-sum error model |err| <= max(32, e + 8) eps Q_j, Q_j = e (2 max|x| + |m|)^2, propagated through each formula",
    "multivariate cost: must-raise only for integer-valued slices with a constant column; either outcome accepted for duplicated columns or when lambda_min <= 1e-8 trace",
    "cross-batch agreement is required to 1e-12 relative, not bitwise",
    "data are 2-D (ndarray or DataFrame) of moderate dynamic range (|x| <= ~4e3)",
]


def shrink_world(trace, still_fails):
    """Drop datasets that no step uses (ids are kept stable)."""
    return None


# --------------------------------------------------------------------------------------
# complete interval space for short series (both tiers; longer series in thorough)
# --------------------------------------------------------------------------------------
def exhaustive_tasks(tier):
    ns = (5, 8) if tier != "thorough" else (5, 8, 12, 16)
    return [{"kind": k, "mode": m, "p": p, "n": n} for k in ("l2", "gv", "gc") for m in (0, 1, 2) for p in (1, 2, 3) for n in ns]


def run_exhaustive(seed, idx, tier, pristine=None):
    """Every admissible interval of a short series: one all-intervals batch under a
    permuted prange, the reversed batch, and every interval as a singleton."""
    tasks = exhaustive_tasks(tier)
    t = tasks[idx % len(tasks)]
    rng = core.make_rng(seed, "C01", 10**6 + idx)
    kind, p, n = t["kind"], t["p"], t["n"]
    X = gen_X(rng, 0, shape=(n, p))
    if t["mode"] == 0:
        param = None
    else:
        param = None
        while param is None:
            param = gen_param(rng, kind, p)
        if t["mode"] == 1 and kind == "l2":
            param = round(float(rng.normal()), 3)
    ms = min_size(kind, p)
    cuts = [[s, e] for s in range(n) for e in range(s + ms, n + 1)]
    steps = [{"op": "new", "param": param}, {"op": "fit", "d": 0, "container": "ndarray", "dtype": "float64"}]
    if cuts:
        order = list(range(len(cuts)))
        rng.shuffle(order)
        steps.append({"op": "eval", "cuts": cuts, "perm": int(rng.integers(1 << 30))})
        steps.append({"op": "eval", "cuts": cuts[::-1], "perm": int(rng.integers(1 << 30))})
        steps.append({"op": "eval", "cuts": [cuts[j] for j in order]})
        for c in cuts:
            steps.append({"op": "eval", "cuts": [c], "as1d": bool(rng.random() < 0.5)})
    trace = {"property": "C01", "seed": int(seed), "run": int(idx), "tier": "exhaustive", "kind": kind, "config": {"instances": 1, "exhaustive": t}, "datasets": [{"id": 0, "family": 0, "p": p, "values": X.tolist()}], "steps": steps}
    res = replay(trace)
    res["signature"] = core.digest(["exhaustive", t])
    res["stats"].setdefault("probes", {})["exhaustive_interval_cases"] = len(cuts)
    return res


def scale_tasks(tier):
    ns = (200, 300) if tier != "thorough" else (200, 300, 370, 530)
    return [{"kind": k, "mode": m, "p": p, "n": n} for k in ("l2", "gv", "gc") for m in (0, 1) for n in ns for p in ((1, 3) if n == 200 else (2,))]


def run_scale(seed, idx, tier, pristine=None):
    """Long series: every admissible interval in ONE batch (20 100 rows for n = 200,
    68 635 for n = 370), then batches in narrow integer types and in a reused buffer.
    Reaches code that switches on beyond a batch or series size (blocking, chunking,
    de-duplication keys that overflow)."""
    tasks = scale_tasks(tier)
    t = tasks[idx % len(tasks)]
    rng = core.make_rng(seed, "C01", 2 * 10**6 + idx)
    kind, p, n = t["kind"], t["p"], t["n"]
    X = gen_X(rng, 0, shape=(n, p))
    param = None
    while t["mode"] == 1 and param is None:
        param = gen_param(rng, kind, p)
    ms = min_size(kind, p)
    cuts = [[s, e] for s in range(n) for e in range(s + ms, n + 1)]
    steps = [{"op": "new", "param": param}, {"op": "fit", "d": 0, "container": "ndarray", "dtype": "float64"}]
    steps.append({"op": "eval", "cuts": cuts, "perm": int(rng.integers(1 << 30))})
    order = rng.permutation(len(cuts))
    for dt in ("int16", "uint16", "int32", "uint8", "int64"):
        sub = [cuts[j] for j in order[: int(rng.integers(40, 400))]]
        order = rng.permutation(len(cuts))
        if dt == "uint8":
            sub = [c for c in cuts if c[1] <= 255]
            sub = [sub[j] for j in rng.permutation(len(sub))[:300]]
        steps.append({"op": "eval", "cuts": sub, "cuts_dtype": dt})
    k = 128
    for _ in range(3):
        order = rng.permutation(len(cuts))
        steps.append({"op": "eval", "cuts": [cuts[j] for j in order[:k]], "buf": True})
    trace = {"property": "C01", "seed": int(seed), "run": int(idx), "tier": "scale", "kind": kind, "config": {"instances": 1, "scale": t}, "datasets": [{"id": 0, "family": 0, "p": p, "values": X.tolist()}], "steps": steps}
    res = replay(trace)
    res["signature"] = core.digest(["scale", t])
    res["stats"].setdefault("probes", {})["scale_interval_rows"] = len(cuts)
    return res


def extra_checks(seed, tier, args):
    from histsim import runner

    tasks = exhaustive_tasks(tier)
    res = runner.run_batch("C01", seed, tier, list(range(len(tasks))), workers=args.workers, per_run_guard=300, chunk=4, fn="run_exhaustive")
    ktasks = scale_tasks(tier)
    resk = runner.run_batch("C01", seed, tier, list(range(len(ktasks))), workers=args.workers, per_run_guard=900, chunk=1, fn="run_scale")
    n_rows = sum(r.get("stats", {}).get("probes", {}).get("scale_interval_rows", 0) for r in resk if "stats" in r)
    n_int = sum(r.get("stats", {}).get("probes", {}).get("exhaustive_interval_cases", 0) for r in res if "stats" in r)
    res = res + resk
    return res, {"scale_sweep": {"tasks": len(ktasks), "rows_in_single_batches": int(n_rows), "what": "for each cost x {optimal, fixed} x (n = 200 with p in {1, 3} and n = 300 with p = 2; thorough also n = 370, 530): every admissible interval in one batch (20 100 to 140 715 rows), then sub-batches with the cuts in int16 / uint16 / int32 / uint8 and in one preallocated buffer refilled in place; all rows judged by the reference and against each other"},
        "exhaustive_interval_space": {"tasks": len(tasks), "intervals": int(n_int), "complete": True, "what": "for each cost x {optimal, fixed, fixed per-column / matrix} x p in 1..3 x n in {5, 8} (thorough: also 12, 16): every admissible interval, as one batch under a permuted prange, reversed, shuffled, and as singletons (2-D and 1-D)"}}
