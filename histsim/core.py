"""Shared pieces of the simulator: canonical outcomes, spec extraction / building,
crash-point tracer, fault plan for stub peers, dataset (de)serialisation, seeds.
"""

import hashlib
import json
import os
import sys

import numpy as np
import pandas as pd

import skchange

SK_DIR = os.path.dirname(os.path.abspath(skchange.__file__)) + os.sep
SK_TESTS = ("/tests/",)

PROP_NUM = {"C01": 1, "C10": 10, "C17": 17}


def make_rng(seed, prop, run_index, stream=0):
    """One PRNG per run, derived from (VERIF_SEED, property, run index)."""
    ss = np.random.SeedSequence([int(seed), PROP_NUM.get(prop, 99), int(run_index), stream])
    return np.random.Generator(np.random.PCG64(ss))


# --------------------------------------------------------------------------------------
# faults
# --------------------------------------------------------------------------------------
class SimInterrupt(BaseException):
    """Injected crash: control leaves a call at an arbitrary skchange source line."""


class SimAllocFail(MemoryError):
    """Injected allocation failure at an arbitrary skchange source line.  Unlike
    SimInterrupt it is an ordinary ``Exception``: a handler in the code under test can
    catch it (clean up, fall back - or swallow it and carry on with half-built state)."""


class CallHang(BaseException):
    """A single public call exceeded its CPU budget (the pinned tree can loop forever,
    e.g. greedy selection with a negative threshold); treated like a fired fault."""


CALL_BUDGET_S = float(os.environ.get("VERIF_CALL_BUDGET", "3.0"))


def _on_vtalrm(signum, frame):
    raise CallHang()


def install_call_budget():
    import signal

    signal.signal(signal.SIGVTALRM, _on_vtalrm)


def budget_start():
    import signal

    signal.setitimer(signal.ITIMER_VIRTUAL, CALL_BUDGET_S)


def budget_stop():
    import signal

    signal.setitimer(signal.ITIMER_VIRTUAL, 0)


class FlakyError(RuntimeError):
    """Raised by a stub peer when the simulator's fault plan says so."""


class FaultPlan:
    """Process-global plan consulted by stub peers (AbsDevCost, ScriptedDetector).

    ``arm(site, k)``: the k-th time (1-based) a stub reaches ``site`` while armed,
    it raises FlakyError.  Only armed around the system-under-test's call, never
    around an oracle call.
    """

    def __init__(self):
        self.site = None
        self.k = 0
        self.count = 0
        self.fired = False

    def arm(self, site, k):
        self.site, self.k, self.count, self.fired = site, int(k), 0, False

    def disarm(self):
        self.site = None

    def tick(self, site):
        if self.site is not None and site == self.site:
            self.count += 1
            if self.count == self.k:
                self.fired = True
                self.site = None
                raise FlakyError(f"injected failure at {site} call {self.k}")


FAULTS = FaultPlan()


class LineTracer:
    """Counts ``line`` events in frames of /repo/skchange (tests excluded) and raises
    SimInterrupt at the k-th one.  k=None only counts."""

    def __init__(self, k=None, record_sites=False, alloc=False):
        self.alloc = alloc
        self.k = k
        self.count = 0
        self.fired_at = None
        self.sites = [] if record_sites else None

    def _local(self, frame, event, arg):
        if event == "line":
            self.count += 1
            if self.sites is not None:
                self.sites.append(
                    (frame.f_code.co_filename[len(SK_DIR):], frame.f_lineno)
                )
            if self.k is not None and self.count == self.k:
                self.fired_at = (
                    frame.f_code.co_filename[len(SK_DIR):],
                    frame.f_lineno,
                )
                raise (SimAllocFail("injected allocation failure") if self.alloc else SimInterrupt())
        return self._local

    def _global(self, frame, event, arg):
        fn = frame.f_code.co_filename
        if fn.startswith(SK_DIR) and "/tests/" not in fn:
            return self._local
        return None

    def run(self, fn):
        old = sys.gettrace()
        sys.settrace(self._global)
        try:
            return fn()
        finally:
            sys.settrace(old)


# --------------------------------------------------------------------------------------
# canonical outcomes
# --------------------------------------------------------------------------------------
def _canon_index(ix):
    if isinstance(ix, pd.RangeIndex):
        return ("RangeIndex", ix.start, ix.stop, ix.step, str(ix.name))
    return (type(ix).__name__, str(ix.dtype), tuple(str(v) for v in ix), str(ix.name))


def canon(o):
    """Canonical, hashable, bit-exact description of a returned value."""
    if isinstance(o, pd.DataFrame):
        return (
            "df",
            o.shape,
            _canon_index(o.index),
            tuple(str(c) for c in o.columns),
            tuple(canon(o.iloc[:, j]) for j in range(o.shape[1])),
        )
    if isinstance(o, pd.Series):
        dt = str(o.dtype)
        if dt.startswith("interval"):
            return (
                "iv",
                str(o.name),
                tuple((repr(i.left), repr(i.right), i.closed) for i in o),
                _canon_index(o.index),
            )
        if o.dtype == object:
            return (
                "obj",
                str(o.name),
                tuple(canon(np.asarray(v)) for v in o),
                _canon_index(o.index),
            )
        return ("s", str(o.name), dt, o.to_numpy().tobytes(), _canon_index(o.index))
    if isinstance(o, np.ndarray):
        if o.dtype == object:
            return ("ao", o.shape, tuple(canon(v) for v in o.ravel()))
        return ("a", o.shape, str(o.dtype), np.ascontiguousarray(o).tobytes())
    if isinstance(o, (list, tuple)):
        return (type(o).__name__, tuple(canon(v) for v in o))
    if isinstance(o, dict):
        return ("dict", tuple((str(k), canon(v)) for k, v in sorted(o.items(), key=lambda kv: str(kv[0]))))
    if isinstance(o, (np.floating, float)):
        return ("f", np.float64(o).tobytes())
    if isinstance(o, (np.integer, int, bool, np.bool_)):
        return ("i", int(o))
    if o is None or isinstance(o, str):
        return o
    if isinstance(o, pd.Index):
        return _canon_index(o)
    return ("repr", type(o).__name__, repr(o))


def digest(x):
    return hashlib.sha256(repr(x).encode()).hexdigest()[:16]


def _leaves(o):
    """Flatten a returned value into (discrete structure, list of float arrays)."""
    if isinstance(o, pd.DataFrame):
        d, f = [("df", o.shape, _canon_index(o.index), tuple(str(c) for c in o.columns))], []
        for j in range(o.shape[1]):
            dd, ff = _leaves(o.iloc[:, j])
            d += dd
            f += ff
        return d, f
    if isinstance(o, pd.Series):
        if str(o.dtype).startswith("float"):
            return [("sf", str(o.name), len(o), _canon_index(o.index))], [o.to_numpy(dtype=float)]
        return [canon(o)], []
    if isinstance(o, np.ndarray) and o.dtype.kind == "f":
        return [("af", o.shape)], [o.astype(float).ravel()]
    if isinstance(o, (float, np.floating)):
        return [("f",)], [np.array([float(o)])]
    if isinstance(o, (list, tuple)):
        d, f = [("seq", len(o))], []
        for v in o:
            dd, ff = _leaves(v)
            d += dd
            f += ff
        return d, f
    return [canon(o)], []


def close_enough(a, b, rtol=1e-9):
    """Tolerant comparison: discrete parts exact, float parts to rtol (used only for
    update lineages, see DESIGN 6)."""
    da, fa = _leaves(a)
    db, fb = _leaves(b)
    if da != db or len(fa) != len(fb):
        return False
    for x, y in zip(fa, fb):
        if x.shape != y.shape:
            return False
        if not np.allclose(x, y, rtol=rtol, atol=1e-12, equal_nan=True):
            return False
    return True


def fingerprint_arg(a):
    """Deep fingerprint of a caller-owned argument (values, dtype, labels, flags)."""
    if isinstance(a, pd.DataFrame):
        return ("df", canon(a), tuple(str(t) for t in a.dtypes))
    if isinstance(a, pd.Series):
        return ("s", canon(a))
    if isinstance(a, np.ndarray):
        return ("a", canon(a), a.flags.writeable)
    return ("o", canon(a))


# --------------------------------------------------------------------------------------
# callables that may appear as hyper-parameters (by registry name)
# --------------------------------------------------------------------------------------
def stat_range(v):
    return float(np.max(v) - np.min(v))


def stat_first(v):
    return float(v[0])


def pen_flat(n, p, n_params_per_variable=1, scale=1.0):
    """User-defined MVCAPA penalty: constant alpha, equal betas."""
    return scale * 2.0 * np.log(n), np.full(p, scale * 1.5)


def pen_steps(n, p, n_params_per_variable=1, scale=1.0):
    """User-defined MVCAPA penalty: zero alpha, increasing betas."""
    return 0.0, scale * (1.0 + np.arange(p, dtype=float))


FN = {
    "np.mean": np.mean,
    "np.median": np.median,
    "np.max": np.max,
    "np.min": np.min,
    "np.std": np.std,
    "np.var": np.var,
    "stat_range": stat_range,
    "stat_first": stat_first,
    "pen_flat": pen_flat,
    "pen_steps": pen_steps,
}
FN_NAME = {id(v): k for k, v in FN.items()}

CLS = {}


def register_classes():
    """Fill the class registry (skchange classes + stub peers)."""
    if CLS:
        return CLS
    from skchange.anomaly_detectors import (
        CAPA,
        MVCAPA,
        CircularBinarySegmentation,
        StatThresholdAnomaliser,
    )
    from skchange.anomaly_scores import L2Saving, LocalAnomalyScore, Saving
    from skchange.change_detectors import PELT, MovingWindow, SeededBinarySegmentation
    from skchange.change_scores import CUSUM, ChangeScore
    from skchange.costs import GaussianCovCost, GaussianVarCost, L2Cost

    from histsim import stubs

    for c in [
        PELT,
        MovingWindow,
        SeededBinarySegmentation,
        CAPA,
        MVCAPA,
        CircularBinarySegmentation,
        StatThresholdAnomaliser,
        L2Cost,
        GaussianVarCost,
        GaussianCovCost,
        CUSUM,
        ChangeScore,
        Saving,
        L2Saving,
        LocalAnomalyScore,
        stubs.AbsDevCost,
        stubs.ScriptedDetector,
        stubs.ScriptedDetectorNoFit,
    ]:
        CLS[c.__name__] = c
    return CLS


class SpecError(Exception):
    """The object's hyper-parameters cannot be expressed / rebuilt."""


def extract(o):
    """Hyper-parameter spec of a live object, read off the object itself."""
    if hasattr(o, "get_params") and not isinstance(o, type):
        return {
            "__cls__": type(o).__name__,
            "params": {k: extract(v) for k, v in o.get_params(deep=False).items()},
        }
    if isinstance(o, np.ndarray):
        return {"__arr__": o.tolist(), "dtype": str(o.dtype)}
    if isinstance(o, tuple):
        return {"__tuple__": [extract(x) for x in o]}
    if isinstance(o, list):
        return [extract(x) for x in o]
    if callable(o):
        name = FN_NAME.get(id(o))
        if name is None:
            raise SpecError(f"unregistered callable {o!r}")
        return {"__fn__": name}
    if isinstance(o, (np.floating,)):
        return float(o)
    if isinstance(o, (np.integer,)):
        return int(o)
    if isinstance(o, (np.bool_,)):
        return bool(o)
    if isinstance(o, float) and o != o:
        return {"__nan__": 1}
    if isinstance(o, float) and o in (float("inf"), float("-inf")):
        return {"__inf__": 1 if o > 0 else -1}
    return o


def spec_json(o):
    return json.dumps(extract(o), sort_keys=True)


def build(s, env=None):
    """Build a brand-new object from a spec (plain constructor calls).

    ``env`` maps names to live objects for ``{"__ref__": name}`` entries (used only when
    building the history world, never for twins)."""
    if isinstance(s, dict):
        if "__cls__" in s:
            cls = register_classes()[s["__cls__"]]
            return cls(**{k: build(v, env) for k, v in s["params"].items()})
        if "__arr__" in s:
            return np.array(s["__arr__"], dtype=s.get("dtype", "float64"))
        if "__tuple__" in s:
            return tuple(build(x, env) for x in s["__tuple__"])
        if "__fn__" in s:
            return FN[s["__fn__"]]
        if "__ref__" in s:
            return env[s["__ref__"]]
        if "__nan__" in s:
            return float("nan")
        if "__inf__" in s:
            return float("inf") * s["__inf__"]
        raise SpecError(f"bad spec {s}")
    if isinstance(s, list):
        return [build(x, env) for x in s]
    return s


def build_via_set_params(s):
    """Twin route 'set_params-configured': construct with placeholder arguments, then
    configure through set_params (top level only; nested objects via constructors)."""
    cls = register_classes()[s["__cls__"]]
    params = {k: build(v) for k, v in s["params"].items()}
    import inspect

    sig = inspect.signature(cls.__init__)
    required = [
        n
        for n, p in sig.parameters.items()
        if n != "self" and p.default is inspect.Parameter.empty
    ]
    obj = cls(**{k: params[k] for k in required})
    obj.set_params(**params)
    return obj


def subobjects(o, acc=None):
    """All estimator objects reachable through hyper-parameters (identity based)."""
    acc = [] if acc is None else acc
    if hasattr(o, "get_params") and not isinstance(o, type):
        acc.append(o)
        try:
            vals = o.get_params(deep=False).values()
        except Exception:
            vals = []
        for v in vals:
            subobjects(v, acc)
    return acc


# --------------------------------------------------------------------------------------
# datasets <-> JSON
# --------------------------------------------------------------------------------------
def make_index(kind, start, n):
    if kind == "range":
        return pd.RangeIndex(start, start + n)
    if kind == "dt":
        return pd.date_range("2021-03-01", periods=start + n, freq="D")[start:]
    raise ValueError(kind)


def dataset_object(ds, index_start=None):
    """Materialise a dataset spec.

    ds = {values: [[..]] | None, dtype, container: df|series|ndarray|none,
          index: {kind, start}, columns: [..]}
    """
    if ds.get("container") == "none":
        return None
    vals = [[np.nan if v is None else v for v in row] for row in ds["values"]]
    p = len(ds["columns"])
    arr = np.array(vals, dtype=ds.get("dtype", "float64")).reshape(len(vals), p)
    n = arr.shape[0]
    c = ds.get("container", "df")
    if c == "ndarray":
        return arr
    start = ds["index"]["start"] if index_start is None else index_start
    ix = make_index(ds["index"]["kind"], start, n)
    if c == "series":
        return pd.Series(arr[:, 0], index=ix, name=ds["columns"][0])
    return pd.DataFrame(arr, index=ix, columns=list(ds["columns"]))


def values_to_json(arr):
    out = []
    for row in np.asarray(arr).tolist():
        out.append([None if (isinstance(v, float) and v != v) else v for v in row])
    return out


class Lineage(list):
    """Training lineage: the fit chunk and later update chunks.  ``overlap`` says that
    some update chunk re-sent index labels already seen (a sliding window, revised
    values): "old and new data combined" is then the union of the labels with the newer
    values winning, in index order (pandas' combine_first, which is also what the
    property's anchor names as the mechanism)."""

    overlap = False


def concat_lineage(chunks):
    if len(chunks) == 1:
        return chunks[0]
    if getattr(chunks, "overlap", False):
        comb = chunks[0]
        for ch in chunks[1:]:
            comb = ch.combine_first(comb)
        return comb
    return pd.concat(chunks)


def alt_combination(chunks):
    """The same combined data, put together another way (other memory layout)."""
    if getattr(chunks, "overlap", False):
        comb = pd.concat(list(chunks))
        comb = comb[~comb.index.duplicated(keep="last")].sort_index()
        return comb
    comb = chunks[0]
    for ch in chunks[1:]:
        comb = ch.combine_first(comb)
    return comb
