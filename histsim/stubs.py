"""Stub peers: user-defined cost and user-defined change detector (the "programs" a user
may plug into skchange).  Both consult the simulator's fault plan so that they can be
made to fail on their k-th call while the system under test is running."""

import numpy as np

from skchange.change_detectors.base import ChangeDetector
from skchange.costs.base import BaseCost
from skchange.costs.utils import check_mean
from skchange.utils.validation.data import as_2d_array

from histsim.core import FAULTS


class AbsDevCost(BaseCost):
    """Sum of absolute deviations from the median (param=None) or a fixed location."""

    def __init__(self, param=None):
        super().__init__(param)

    def _check_fixed_param(self, param, X):
        return check_mean(param, X)

    def _fit(self, X, y=None):
        FAULTS.tick("AbsDevCost._fit")
        X = as_2d_array(X)
        self._loc = self._check_param(self.param, X)
        # C-contiguous private copy: results do not depend on the memory layout of the
        # array the caller happened to pass
        self.X_ = np.array(X, dtype=float, order="C")
        return self

    def _evaluate_optim_param(self, starts, ends):
        FAULTS.tick("AbsDevCost._evaluate")
        out = np.zeros((len(starts), self.X_.shape[1]))
        for i, (s, e) in enumerate(zip(starts, ends)):
            seg = np.ascontiguousarray(self.X_[s:e].T)
            out[i] = np.abs(seg - np.median(seg, axis=1)[:, None]).sum(axis=1)
        return out

    def _evaluate_fixed_param(self, starts, ends):
        FAULTS.tick("AbsDevCost._evaluate")
        out = np.zeros((len(starts), self.X_.shape[1]))
        for i, (s, e) in enumerate(zip(starts, ends)):
            seg = np.ascontiguousarray(self.X_[s:e].T)
            out[i] = np.abs(seg - np.reshape(self._loc, (-1, 1))).sum(axis=1)
        return out

    @classmethod
    def get_test_params(cls, parameter_set="default"):
        return [{"param": None}, {"param": 0.0}]


class ScriptedDetector(ChangeDetector):
    """User-defined change detector that reports scripted changepoints.

    ``cpts``: tuple of candidate positions; on a series of length n it reports those in
    [1, n-1], sorted and de-duplicated.  Counts its own _fit/_predict calls (part of its
    state, so any use of the object by someone else is visible)."""

    _tags = {
        "capability:missing_values": False,
        "capability:multivariate": True,
        "fit_is_empty": False,
    }

    def __init__(self, cpts=()):
        self.cpts = cpts
        super().__init__()
        self._n_fit = 0
        self._n_predict = 0

    def _fit(self, X, y=None):
        FAULTS.tick("ScriptedDetector._fit")
        self._n_fit += 1
        self.n_train_ = len(X)
        return self

    def _predict(self, X):
        FAULTS.tick("ScriptedDetector._predict")
        self._n_predict += 1
        n = len(X)
        c = sorted({int(v) for v in self.cpts if 1 <= int(v) <= n - 1})
        return ChangeDetector._format_sparse_output(c)

    @classmethod
    def get_test_params(cls, parameter_set="default"):
        return [{"cpts": ()}, {"cpts": (3, 5)}]


class ScriptedDetectorNoFit(ScriptedDetector):
    """The same user-defined detector declaring, as sktime allows, that its fit is empty."""

    _tags = {
        "capability:missing_values": False,
        "capability:multivariate": True,
        "fit_is_empty": True,
    }
